#!/usr/bin/env bash
# tools/scratch_mutant.sh <PROP>/<name> : keep a scratch worktree with the stored patch applied and a copy of the
# harness pointed at it (/tmp/sd/x-wt, /tmp/sd/x-verif) for experiments; tools/scratch_mutant.sh --clean removes both.
set -e
if [ "$1" = "--clean" ]; then git -C /repo worktree remove --force /tmp/sd/x-wt 2>/dev/null || true; rm -rf /tmp/sd/x-wt /tmp/sd/x-verif; git -C /repo worktree prune; exit 0; fi
KEY="$1"
git -C /repo worktree remove --force /tmp/sd/x-wt 2>/dev/null || true; rm -rf /tmp/sd/x-wt
git -C /repo worktree add --detach /tmp/sd/x-wt HEAD >/dev/null
( cd /tmp/sd/x-wt && (git apply /verif/seeded/$KEY/patch.diff || git apply --3way /verif/seeded/$KEY/patch.diff) )
mkdir -p /tmp/sd/x-verif
rsync -a --delete --exclude target --exclude 'target-*' --exclude .git /verif/ /tmp/sd/x-verif/
[ -d /tmp/sd/x-verif/target ] || cp -r /verif/target /tmp/sd/x-verif/target
sed -i "s#/repo/cpp/include#/tmp/sd/x-wt/cpp/include#g" /tmp/sd/x-verif/harness/ffi/build.rs; for f in /tmp/sd/x-verif/harness/Cargo.toml /tmp/sd/x-verif/harness/*/Cargo.toml; do sed -i 's#"/repo/cpp"#"/tmp/sd/x-wt/cpp"#; s#"/repo"#"/tmp/sd/x-wt"#' $f; done
( cd /tmp/sd/x-verif/harness && cargo build --release --offline -q 2>&1 | grep -E "^error" -A5 || true )
echo "ready: /tmp/sd/x-verif/target/release/vrun (VERIF_ROOT=/tmp/sd/x-verif)"

#!/usr/bin/env python3
"""Sensitivity of the checks to the defects that were repaired in /repo.

For every "fix:" commit, the fix is reverted in the working tree of /repo (git apply -R),
the listed check is run (quick tier), a VIOLATION with a replay file is expected, the replay
is stored under /verif/regressions/, and the working tree is restored. Nothing is committed
to /repo. Usage: tools/revert_fix_sensitivity.py [substring-of-subject ...]
"""
import json, os, re, shutil, subprocess, sys, time

ROOT = os.path.dirname(os.path.dirname(os.path.abspath(__file__)))
TABLE = [
    # (subject substring, property whose quick check must catch the regression)
    ("do not eagerly encode a hinted candidate", "C04"),
    ("terminate when rendering a conflict", "C04"),
    ("size the activity vector", "C04"),
    ("encode a constrains entry that excludes its own solvable", "C04"),
    ("drop a debug assertion that rejects an excluded soft", "C04"),
    ("never install a soft requirement next to another", "C01"),
    ("a clause of an undecided solvable does not conflict", "C14"),
    ("keep earlier decisions when a soft requirement", "C14"),
    ("clear the in-flight marker", "C13"),
    ("Mapping::iter visits every stored id", "C19"),
    ("added snapshot version sets no longer shadow", "C16"),
    ("guard resolvo::String copy assignment", "C17"),
    ("read favored/locked before consuming", "C17"),
    ("report a cancellation of one union member", "C12"),
]

def sh(cmd, **kw):
    return subprocess.run(cmd, shell=True, capture_output=True, text=True, **kw)

def main():
    only = sys.argv[1:]
    log = sh("git -C /repo log --format='%H %s'").stdout.splitlines()
    os.makedirs(os.path.join(ROOT, "regressions"), exist_ok=True)
    results = []
    assert sh("git -C /repo status --porcelain").stdout.strip() == "", "/repo working tree not clean"
    for subj, prop in TABLE:
        if only and not any(o in subj for o in only):
            continue
        commit = next((l.split()[0] for l in log if subj in l and " fix:" in " " + l.split(" ", 1)[1][:5] + ":" or (subj in l and l.split(" ", 1)[1].startswith("fix:"))), None)
        if not commit:
            print("no commit for", subj); results.append((subj, prop, "NO-COMMIT")); continue
        patch = sh(f"git -C /repo show {commit} --format=").stdout
        p = subprocess.run(["git", "-C", "/repo", "apply", "-R"], input=patch, text=True, capture_output=True)
        if p.returncode != 0:
            print("cannot revert", subj, p.stderr[:300]); results.append((subj, prop, "CANNOT-REVERT")); sh("git -C /repo checkout -- ."); continue
        t0 = time.time()
        try:
            r = sh(f"cd {ROOT} && VERIF_EVIDENCE_DIR=/verif/target/scratch-evidence VERIF_SEED=7 ./check {prop} quick", timeout=1800)
            out = r.stdout
            m = re.search(r"VIOLATION property=(\S+) replay=(\S+)", out)
            if m:
                name = re.sub(r"[^a-z0-9]+", "-", subj.lower()).strip("-")[:60]
                dst = os.path.join(ROOT, "regressions", f"{prop}-{name}.json")
                shutil.copy(m.group(2), dst)
                os.remove(m.group(2))
                sig = json.load(open(dst)).get("signature")
                results.append((subj, prop, f"CAUGHT {sig} in {time.time()-t0:.0f}s -> {os.path.relpath(dst, ROOT)}"))
            else:
                results.append((subj, prop, f"MISSED (exit {r.returncode}) " + out[-300:].replace("\n", " | ")))
        finally:
            sh("git -C /repo checkout -- .")
    for r in results:
        print(" | ".join(r))
    assert sh("git -C /repo status --porcelain").stdout.strip() == ""

if __name__ == "__main__":
    main()

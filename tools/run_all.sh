#!/usr/bin/env bash
# tools/run_all.sh [quick|thorough] : run every registered check on the current tree, print one line each
cd "$(dirname "$0")/.."
TIER="${1:-quick}"
./check build >/dev/null || { echo "build failed"; exit 2; }
rc=0
for id in C01 C02 C03 C04 C05 C06 C07 C08 C09 C10 C11 C12 C13 C14 C15 C16 C17 C18 C19 C20; do
  s=$(date +%s)
  out=$(./check "$id" "$TIER" 2>&1); code=$?
  e=$(date +%s)
  echo "$id exit=$code $((e-s))s $(echo "$out" | grep -E '^property=|VIOLATION|INCONCLUSIVE|KNOWN-FINDING' | tail -2 | tr '\n' ' ' | cut -c1-220)"
  [ $code -ne 0 ] && rc=1
done
exit $rc

#!/usr/bin/env python3
"""Seeded-change tooling.

  seeded.py confirm <worktree> <mutant_dir> <PROP> <name>
      In the scratch worktree: apply patch, run the existing suite (must pass), run the demo
      (must fail), revert, run the demo again (must pass). On success store
      /verif/seeded/<PROP>/<name>/{patch.diff, demo..., notes.md, meta.json}.
  seeded.py run <PROP>/<name> [CHECK ...]
      Apply the stored patch to /repo, run the listed quick checks (default: the property the
      change targets), record which report a VIOLATION in meta.json, undo the patch.
  seeded.py table
      Regenerate /verif/seeded/README.md.
"""
import json, os, re, shutil, subprocess, sys, time, glob

ROOT = os.path.dirname(os.path.dirname(os.path.abspath(__file__)))

def sh(cmd, cwd=None, timeout=3600):
    return subprocess.run(cmd, shell=True, cwd=cwd, capture_output=True, text=True, timeout=timeout)

def suite_ok(wt):
    r = sh("cargo test --workspace --no-fail-fast --offline 2>&1", cwd=wt)
    passed = sum(int(m) for m in re.findall(r"test result: ok\. (\d+) passed", r.stdout))
    failed = "FAILED" in r.stdout or "test result: FAILED" in r.stdout
    return (passed, not failed, r.stdout[-1500:])

def confirm(wt, mdir, prop, name):
    assert sh("git status --porcelain -- src cpp/src cpp/include tests", cwd=wt).stdout.strip() == "", "worktree not clean"
    patch = os.path.join(mdir, "patch.diff")
    demos = [f for f in glob.glob(os.path.join(mdir, "*.rs"))]
    assert demos, "no demo .rs file"
    demo = demos[0]
    tname = f"seeded_demo_{prop.lower()}_{re.sub(r'[^a-z0-9]', '_', name.lower())}"
    src = open(demo).read()
    if "resolvo_cpp" in src:
        # demonstration against the C++ binding crate
        tpath = os.path.join(wt, "cpp", "tests", tname + ".rs")
        feat = "-p resolvo_cpp --features verif-hooks"
    else:
        tpath = os.path.join(wt, "tests", tname + ".rs")
        feat = "--features serde" if "serde" in src else ""
    res = {}
    try:
        r = sh(f"git apply {patch}", cwd=wt); assert r.returncode == 0, "patch does not apply: " + r.stderr
        passed, ok, tail = suite_ok(wt)
        res["suite_with_patch"] = {"passed": passed, "ok": ok}
        shutil.copy(demo, tpath)
        r = sh(f"cargo test --offline {feat} --test {tname} 2>&1", cwd=wt)
        res["demo_with_patch_fails"] = (r.returncode != 0 and ("test result: FAILED" in r.stdout or "process abort signal" in r.stdout or "signal: 11" in r.stdout))
        res["demo_with_patch_tail"] = r.stdout[-600:]
        sh("git checkout -- src cpp", cwd=wt)
        r = sh(f"cargo test --offline {feat} --test {tname} 2>&1", cwd=wt)
        res["demo_without_patch_passes"] = (r.returncode == 0)
        res["demo_without_patch_tail"] = r.stdout[-300:]
    finally:
        sh("git checkout -- src cpp", cwd=wt)
        if os.path.exists(tpath): os.remove(tpath)
    good = res.get("suite_with_patch", {}).get("ok") and res["suite_with_patch"]["passed"] >= 57 and res.get("demo_with_patch_fails") and res.get("demo_without_patch_passes")
    print(json.dumps(res, indent=1)[:1500])
    if not good:
        print("NOT CONFIRMED"); return 1
    dst = os.path.join(ROOT, "seeded", prop, name)
    os.makedirs(dst, exist_ok=True)
    shutil.copy(patch, os.path.join(dst, "patch.diff"))
    shutil.copy(demo, os.path.join(dst, os.path.basename(demo)))
    if os.path.exists(os.path.join(mdir, "notes.md")):
        shutil.copy(os.path.join(mdir, "notes.md"), os.path.join(dst, "notes.md"))
    notes = open(os.path.join(mdir, "notes.md")).read() if os.path.exists(os.path.join(mdir, "notes.md")) else ""
    meta = {"property": prop, "name": name, "origin": "independent sub-agent given only the property text and a scratch worktree",
            "confirmed": {"existing_suite_with_patch": f"{res['suite_with_patch']['passed']} passed, 0 failed",
                          "demonstration_with_patch": "fails", "demonstration_without_patch": "passes",
                          "how": "tools/seeded.py confirm in a scratch worktree outside /repo and /verif"},
            "needs_to_manifest": "see notes.md", "checks": {}}
    json.dump(meta, open(os.path.join(dst, "meta.json"), "w"), indent=1)
    print("CONFIRMED ->", dst); return 0

def run(key, checks):
    dst = os.path.join(ROOT, "seeded", key)
    meta = json.load(open(os.path.join(dst, "meta.json")))
    checks = checks or [meta["property"]]
    assert sh("git -C /repo status --porcelain").stdout.strip() == "", "/repo not clean"
    r = sh(f"git -C /repo apply {os.path.join(dst, 'patch.diff')}")
    assert r.returncode == 0, r.stderr
    try:
        b = sh(f"cd {ROOT} && ./check build", timeout=3600)
        if b.returncode != 0:
            print("build failed", b.stdout[-500:]); return 1
        for c in checks:
            t0 = time.time()
            r = sh(f"cd {ROOT} && VERIF_NO_REPLAY=1 VERIF_EVIDENCE_DIR=/verif/target/scratch-evidence VERIF_SEED=${{VERIF_SEED:-3}} ./target/release/vrun check {c} quick", timeout=3600)
            m = re.search(r"VIOLATION property=(\S+) replay=(\S+)", r.stdout)
            sig = None
            ms = re.search(r"^--- (?:violation detail \([^/]*/ |regression case fails again \()?(.*?)\)?:?$", r.stdout, re.M)
            if ms:
                sig = ms.group(1).strip()
            if m and os.path.exists(m.group(2)):
                try:
                    if "/replays/" in m.group(2):
                        sig = json.load(open(m.group(2))).get("signature")
                    keep = os.path.join(dst, f"replay-{c}.json")
                    shutil.copy(m.group(2), keep)
                    if "/replays/" in m.group(2):
                        os.remove(m.group(2))
                except Exception:
                    pass
            meta["checks"][c] = {"verdict": "VIOLATION" if m else ("inconclusive" if r.returncode == 2 else "silent"),
                                 "signature": sig, "seconds": round(time.time() - t0, 1)}
            print(key, c, meta["checks"][c])
    finally:
        sh("git -C /repo checkout -- .")
    json.dump(meta, open(os.path.join(dst, "meta.json"), "w"), indent=1)
    assert sh("git -C /repo status --porcelain").stdout.strip() == ""
    return 0

def table():
    rows = []
    for mf in sorted(glob.glob(os.path.join(ROOT, "seeded", "*", "*", "meta.json"))):
        m = json.load(open(mf))
        caught = [f"{c} ({v['signature']})" for c, v in m["checks"].items() if v["verdict"] == "VIOLATION"]
        silent = [c for c, v in m["checks"].items() if v["verdict"] != "VIOLATION"]
        rows.append(f"| {m['property']}/{m['name']} | {m.get('summary','')} | {', '.join(caught) or '-'} | {', '.join(silent) or '-'} |")
    out = "# Seeded changes\n\nEach directory holds patch.diff, the author's demonstration, notes.md and meta.json.\nNone of these patches is ever committed to /repo.\n\n| change | what it does | caught by (quick tier) | silent |\n|---|---|---|---|\n" + "\n".join(rows) + "\n"
    open(os.path.join(ROOT, "seeded", "README.md"), "w").write(out)
    print(out)

def run_all():
    """Re-run every stored change against the check of its own property (generated search only)."""
    keys = sorted(os.path.relpath(os.path.dirname(m), os.path.join(ROOT, "seeded")) for m in glob.glob(os.path.join(ROOT, "seeded", "*", "*", "meta.json")))
    missed = []
    for k in keys:
        meta = json.load(open(os.path.join(ROOT, "seeded", k, "meta.json")))
        target = meta.get("target_check", meta["property"])
        run(k, [target])
        meta = json.load(open(os.path.join(ROOT, "seeded", k, "meta.json")))
        if meta["checks"].get(target, {}).get("verdict") != "VIOLATION":
            missed.append(k)
    print("MISSED:", missed)
    return 1 if missed else 0

if __name__ == "__main__":
    cmd = sys.argv[1]
    if cmd == "run-all": sys.exit(run_all())
    if cmd == "confirm": sys.exit(confirm(*sys.argv[2:6]))
    if cmd == "run": sys.exit(run(sys.argv[2], sys.argv[3:]))
    if cmd == "table": table()

#!/usr/bin/env python3
"""Run stored seeded changes against the checks in parallel, without touching /repo.

  seeded_par.py [-j N] [--tier quick|thorough] [--seed S] [--checks C01,C04] [--keep-replay] <key-or-glob> ...

For every key (e.g. C01/r3m1, or a glob such as '*/r3m*') a scratch git worktree of /repo's HEAD
is created under /tmp/sd/, the patch applied there, the tracked content of /verif copied next
to it with the harness' path dependencies pointed at the worktree (third-party build output
is pre-seeded from /verif/target so only resolvo and the harness are recompiled), and the
check of the targeted property is run with the replay tier disabled (VERIF_NO_REPLAY=1): this
measures what the generated search finds by itself. Results go to seeded/<key>/meta.json
("checks") and the minimised case to seeded/<key>/replay-<check>.json. Every scratch directory
is removed afterwards.
"""
import glob, json, os, re, shutil, subprocess, sys, time
from concurrent.futures import ThreadPoolExecutor

ROOT = os.path.dirname(os.path.dirname(os.path.abspath(__file__)))
SCRATCH = "/tmp/sd"


def sh(cmd, cwd=None, timeout=7200, env=None):
    e = dict(os.environ)
    if env:
        e.update(env)
    return subprocess.run(cmd, shell=True, cwd=cwd, capture_output=True, text=True, timeout=timeout, env=e)


def one(key, tier, seed, checks, workers):
    dst = os.path.join(ROOT, "seeded", key)
    meta = json.load(open(os.path.join(dst, "meta.json")))
    targets = checks or [meta.get("target_check", meta["property"])]
    tag = key.replace("/", "-")
    wt = f"{SCRATCH}/{tag}-wt"
    vf = f"{SCRATCH}/{tag}-verif"
    out = {}
    try:
        sh(f"git -C /repo worktree remove --force {wt}")
        shutil.rmtree(wt, ignore_errors=True)
        shutil.rmtree(vf, ignore_errors=True)
        r = sh(f"git -C /repo worktree add --detach {wt} HEAD")
        assert r.returncode == 0, r.stderr
        r = sh(f"git apply {os.path.join(dst, 'patch.diff')}", cwd=wt)
        if r.returncode != 0:
            # the patch was written against an earlier HEAD (before a later fix: commit touched the
            # same file): merge it
            r = sh(f"git apply --3way {os.path.join(dst, 'patch.diff')}", cwd=wt)
            if r.returncode == 0 and sh("git diff --name-only --diff-filter=U", cwd=wt).stdout.strip():
                r.returncode = 1
                r.stderr = "3-way merge left conflicts"
        if r.returncode != 0:
            return key, {t: {"verdict": "patch-does-not-apply", "signature": r.stderr[-200:], "seconds": 0} for t in targets}
        os.makedirs(vf)
        r = sh(f"git -C {ROOT} archive HEAD | tar -x -C {vf}")
        assert r.returncode == 0, r.stderr
        # uncommitted harness edits are part of what is being measured
        sh(f"rsync -a --exclude target --exclude 'target-*' {ROOT}/harness/ {vf}/harness/")
        sh(f"rsync -a {ROOT}/check {vf}/check")
        for f in glob.glob(f"{vf}/harness/*/Cargo.toml") + [f"{vf}/harness/Cargo.toml"]:
            s = open(f).read()
            s2 = s.replace('"/repo/cpp"', f'"{wt}/cpp"').replace('"/repo"', f'"{wt}"')
            if s2 != s:
                open(f, "w").write(s2)
        # the FFI harness compiles shim.cpp against the C++ headers of the tree under test
        br = f"{vf}/harness/ffi/build.rs"
        if os.path.exists(br):
            b = open(br).read()
            open(br, "w").write(b.replace("/repo/cpp/include", f"{wt}/cpp/include"))
        need_ffi = any(t == "C17" for t in targets) or (tier == "thorough" and any(t in ("C18", "C19") for t in targets))
        sh(f"cp -r {ROOT}/target {vf}/target")
        if need_ffi:
            sh(f"cp -r {ROOT}/target-ffi {vf}/target-ffi")
            # cargo decides by mtime whether the build script is recompiled: build.rs must be
            # newer than the copied build output
            sh(f"touch {vf}/harness/ffi/build.rs {vf}/harness/ffi/shim.cpp")
        for t in targets:
            t0 = time.time()
            env = {"VERIF_NO_REPLAY": "1", "VERIF_SEED": str(seed), "VERIF_NO_FUZZ": "1", "VERIF_NO_MIRI": "1"}
            if workers:
                env["VERIF_WORKERS"] = str(workers)
            r = sh(f"./check {t} {tier}", cwd=vf, env=env)
            txt = r.stdout + r.stderr
            m = re.search(r"VIOLATION property=(\S+) replay=(\S+)", txt)
            sig = None
            ms = re.search(r"^--- (?:violation detail \([^/]*/ |regression case fails again \()?(.*?)\)?:?$", txt, re.M)
            if ms:
                sig = ms.group(1).strip()
            if m:
                rp = m.group(2)
                if not os.path.isabs(rp):
                    rp = os.path.join(vf, rp)
                if os.path.exists(rp):
                    try:
                        sig = json.load(open(rp)).get("signature") or sig
                        shutil.copy(rp, os.path.join(dst, f"replay-{t}.json"))
                    except Exception:
                        pass
            verdict = "VIOLATION" if m else ("inconclusive" if r.returncode == 2 else ("silent" if r.returncode == 0 else f"exit-{r.returncode}"))
            out[t] = {"verdict": verdict, "signature": sig, "seconds": round(time.time() - t0, 1), "tier": tier, "seed": seed}
            if verdict not in ("VIOLATION", "silent"):
                out[t]["tail"] = txt[-600:]
    except Exception as ex:  # infrastructure trouble is reported, never counted as caught
        for t in targets:
            out.setdefault(t, {"verdict": "error", "signature": str(ex)[-300:], "seconds": 0})
    finally:
        sh(f"git -C /repo worktree remove --force {wt}")
        shutil.rmtree(wt, ignore_errors=True)
        shutil.rmtree(vf, ignore_errors=True)
        sh("git -C /repo worktree prune")
    meta = json.load(open(os.path.join(dst, "meta.json")))
    meta.setdefault("checks", {}).update(out)
    json.dump(meta, open(os.path.join(dst, "meta.json"), "w"), indent=1)
    return key, out


def main():
    args = sys.argv[1:]
    jobs, tier, seed, checks, workers = 4, "quick", 3, None, 6
    keys = []
    i = 0
    while i < len(args):
        a = args[i]
        if a == "-j":
            jobs = int(args[i + 1]); i += 2
        elif a == "--tier":
            tier = args[i + 1]; i += 2
        elif a == "--seed":
            seed = int(args[i + 1]); i += 2
        elif a == "--checks":
            checks = args[i + 1].split(","); i += 2
        elif a == "--workers":
            workers = int(args[i + 1]); i += 2
        else:
            hits = sorted(os.path.relpath(os.path.dirname(m), os.path.join(ROOT, "seeded"))
                          for m in glob.glob(os.path.join(ROOT, "seeded", a, "meta.json")))
            keys += hits or [a]
            i += 1
    os.makedirs(SCRATCH, exist_ok=True)
    missed = []
    with ThreadPoolExecutor(max_workers=jobs) as ex:
        for key, out in ex.map(lambda k: one(k, tier, seed, checks, workers), keys):
            for t, v in out.items():
                print(f"{key} {t} {v['verdict']} {v.get('signature')} {v['seconds']}s", flush=True)
                if v["verdict"] != "VIOLATION":
                    missed.append(f"{key}:{t}")
    print("MISSED:", missed)
    return 1 if missed else 0


if __name__ == "__main__":
    sys.exit(main())

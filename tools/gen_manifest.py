#!/usr/bin/env python3
"""Regenerates /verif/MANIFEST.json from the table below (run after adding a property check)."""
import json, subprocess, os

ROOT = os.path.dirname(os.path.dirname(os.path.abspath(__file__)))

# id -> (technique, level category, level text, level note, design ref)
CHECKS = {
    "C01": ("property-based testing (proptest tapes) against a validity predicate over the provider tables",
            "exploration",
            "Generated universes/problems/runtimes; every Ok(S) is checked against an independent validity predicate (requirements, constraints, constrains, exclusions, Unknown, locks, one-per-package) in release and debug builds. Exploration is the right level: the property quantifies over all providers and the oracle is exact on each generated case.",
            "Trusts the table-driven provider and the validity predicate (vcore/src/reference.rs); random universes are bounded (<=12 packages, <=6 candidates, ids < ~500); stage `huge` adds one package of up to 5000 candidates. A quarter of the universes answer filter_candidates in reverse order and the union iterator varies its size_hint (TableProvider::vary_answers, all checks that solve); one generated lock in eight names a solvable the provider no longer lists. One universe in eight is solved under a TRACE-level tracing subscriber; a fifth of the asynchronous universes need two completions per request; hints and exclusions may name unlisted solvables.",
            "DESIGN.md 3/C01"),
    "C02": ("differential / metamorphic property-based testing against an exhaustive reference resolver",
            "exploration",
            "The verdict (Ok vs Unsolvable) is compared with an exact reference search on every generated case and on semantics-preserving variants (listing order, preference order, ids, hints, schedules, activity parameters).",
            "Trusts the reference search (self-checked: its solutions pass the validity predicate; variants must keep its verdict). Bounded universes; cases exceeding the reference node budget are skipped and counted. Stage `deep-chain` (constructed dependency paths of up to 16384 packages, soft lists of up to 70000 entries, crash-isolated) compares the outcome with the one the construction fixes.",
            "DESIGN.md 3/C02"),
    "C03": ("property-based testing: edge-truth, reachability and graph-only unsatisfiability (DPLL) oracles on the public ConflictGraph",
            "exploration",
            "For every generated unsatisfiable case the public conflict graph is checked edge by edge against the provider tables, for reachability, and for being unsatisfiable on its own.",
            "Trusts the oracle in vcore/src/oracle.rs; graphs of more than 64 nodes skip the DPLL step (never reached at generated sizes). Every conflict graph is first built with the provider's cancellation token raised. The graph-only unsatisfiability step is a DPLL with a deterministic node budget (exhaustion is labelled, never a verdict).",
            "DESIGN.md 3/C03"),
    "C04": ("property-based testing / fuzzing for panics, step budgets, deadlocks and output bounds in debug and release builds",
            "exploration",
            "Feature-interaction universes (hints x locks x exclusions x soft requirements x self references x cycles) are solved and rendered in builds with and without debug assertions; any panic, budget overrun, deadlock or oversized rendering is a violation.",
            "Termination is decided by poll/step budgets, output bounds and structural deadlock detection; a wall-clock watchdog (60 s per case, typical case < 1 ms) is only a backstop and reports exit 2. Stages run in child processes: a stack overflow or abort of the tested code is attributed to the case and reported (`deep-chain`, release and debug: dependency paths of up to 16384 packages on a 2 MiB stack, soft lists of up to 70000 entries). Locks on solvables the provider no longer lists (Package::lock_gone) are part of the feature mix.",
            "DESIGN.md 3/C04"),
    "C05": ("property-based testing against a support-closure oracle",
            "exploration",
            "Every returned solution must be contained in the closure reachable from the root requirements and accepted soft requirements through satisfied requirement edges.",
            "Trusts reach() in vcore/src/reference.rs; bounded universes. A third of the cases judge the answer of a SECOND solve of the problem on the same solver.",
            "DESIGN.md 3/C05"),
    "C06": ("metamorphic property-based testing: identical observation across repeated in-process solves and freshly started processes",
            "exploration",
            "Each generated case is solved 4 times in-process (fresh ahash keys per solver) and again in 2-3 fresh processes; solution order / conflict message / graphviz bytes must be identical.",
            "Hash states and address layouts are sampled by repetition and re-execution, not enumerated. The configuration is part of the case: generated activity parameters, and in half of the cases the observation is a history (a sub-problem solved first on the same solver). A third of the cases use a sort_candidates that leaves ties; stage `huge` has packages of hundreds of candidates (> 32 matches per version set).",
            "DESIGN.md 3/C06"),
    "C07": ("property-based testing on universes that are conflict-free by construction, against a first-choice closure oracle",
            "exploration",
            "Constructive generator guarantees the precondition (re-verified independently per case); solve must return exactly the greedy first-choice closure under any hints and async completion order.",
            "Trusts first_choice_closure() in vcore/src/reference.rs; cases whose precondition check fails are skipped and counted. Stages `wide` (100-160 packages) and `huge` (one package of up to 6000 candidates) reach the thresholds small universes cannot.",
            "DESIGN.md 3/C07"),
    "C08": ("property-based testing with a reference-resolver precondition (exists a solution containing all first choices)",
            "exploration",
            "When the exhaustive reference finds a solution containing the first-ranked candidate of every root requirement, the returned solution must contain them all.",
            "Trusts the reference search; cases with a false precondition are skipped and counted (reported in evidence).",
            "DESIGN.md 3/C08"),
    "C09": ("model-based property testing over the provider call history (causality, at-most-once, exactness)",
            "exploration",
            "The provider call log of one or two successive solves on one solver is checked as a history against a causality model; on conflict-free universes the fetched sets must be exactly the solution / the mentioned names.",
            "No-hint providers only (as the property states); the call log is recorded by the harness's provider. Half of the re-entrant cases use a sort_candidates that abandons a nested cache request other callers may be waiting for.",
            "DESIGN.md 3/C09"),
    "C10": ("schedule exploration: harness-owned executor, sampled and exhaustive completion orders, reference verdict",
            "exploration",
            "The harness owns every provider future; sampled schedules on rich cases plus exhaustive DFS over all interleavings of small cases; termination is decided structurally (deadlock = pending, unwoken, nothing outstanding).",
            "Covers every interleaving a single-threaded executor can produce for the generated cases; exhaustive enumeration is capped per case (cap counted in evidence). One run per sampled case has the provider stop serving after it signalled cancellation (solve must still return); stage `reentrant-sort` uses a provider whose sort_candidates calls back into the SolverCache.",
            "DESIGN.md 3/C10"),
    "C11": ("schedule exploration with a quiescence invariant evaluated by the harness executor",
            "exploration",
            "At every quiescent point of every generated schedule, every get_candidates request implied by delivered dependency information must have been issued.",
            "Quiescence = root future pending and not self-woken; all provider calls are gated in this check. Stage `huge`: hinted packages with thousands of candidates (> 1 024 dependency requests pending in one encoder round). Stage `vast`: 66 000..72 000 independent root requirements must all have been requested when the solver first blocks.",
            "DESIGN.md 3/C11"),
    "C12": ("fault injection: cancellation enumerated over every poll index (transient and sticky) of generated cases",
            "fault_enumeration",
            "For each generated case a dry run counts the cancellation polls; cancellation is then injected at every poll index (quick: up to 48 per case) in two modes; result, carried value and absence of later provider calls are checked.",
            "The poll sequence of a case is deterministic for a fixed schedule (checked: a poll index that is never reached is reported). Stage `wide-root` (thousands of root requirements, 64 sampled indices) reaches polls inside long propagation rounds. Unions of 31-42 and of 901-1 100 version sets are generated in the main stage.",
            "DESIGN.md 3/C12"),
    "C13": ("stateful (history) property testing of solver reuse against the reference resolver",
            "exploration",
            "Generated histories of 2-5 solve calls on one solver (different problems, unsat, cancelled in flight, sync/async); each step is checked against the reference verdict, validity, termination and no re-request of completed metadata.",
            "Trusts the reference search and the call-log model. Half of the cancelled asynchronous steps have the provider stop serving once it signalled cancellation (it serves again for the next call); a third of the histories use a provider whose sort_candidates re-enters the SolverCache (no cancellation there: the provider's own nested call may consume the signal).",
            "DESIGN.md 3/C13"),
    "C14": ("property-based testing: hard-problem reference verdict, validity with the soft exemption, inclusion rule on conflict-free constructions",
            "exploration",
            "Soft lists of all kinds on generated problems: the verdict must be that of the hard problem, results valid, and on conflict-free hard parts every compatible soft solvable (first-choice closure consistent with what was accepted so far) must be included.",
            "The inclusion rule is only applied where its precondition is verified by the reference closure (or follows from the construction: stage `expensive-soft` puts pigeonhole problems behind soft solvables, thousands of learnt clauses per solve).",
            "DESIGN.md 3/C14"),
    "C15": ("exhaustive pair enumeration over generated reveal plans, against the reference resolver",
            "exploration",
            "For generated candidate counts (biased to powers of two +-1, up to 130) and reveal plans, every pair i<j (all pairs up to n=64, sampled above) must be Unsolvable and every single must be selectable.",
            "Reveal plans cover root unions (also with overlapping members), eager (hinted) encoding, late exposure, reveal under a decided sibling and reused solvers; not every partition/order is enumerated.",
            "DESIGN.md 3/C15"),
    "C16": ("differential property-based testing: snapshot provider vs live provider vs reference, round-trip and id-hygiene oracles",
            "exploration",
            "Sparse-id universes, generated seed sets, added requirements and serde round trips; verdict/validity differential against the live tables, order preservation, id hygiene after every add_package_requirement, structural round-trip equality.",
            "favored/locked are stripped (not representable); union member order is not compared (the format stores a set).",
            "DESIGN.md 3/C16"),
    "C17": ("differential testing Rust API vs C++ API plus model-based container histories on both sides of the FFI, under ASan/UBSan and a ledger allocator",
            "exploration",
            "Generated universes are solved through resolvo::solve with a C++ provider compiled against the current headers and through the Rust API (exact equality of solution / error text); generated operation histories drive resolvo::Vector/String in C++ and resolvo_cpp's Vector/String in Rust, crossing the boundary in both directions, against models; memory safety comes from AddressSanitizer (Rust and C++), UBSan traps (C++) and a ledger global allocator that checks dealloc layouts and per-case leaks.",
            "Sanitizers observe executed paths only (thorough tier adds strict Miri for the Rust side of the containers); element types generated are id structs and String; push_back never receives a reference into the same vector (not promised by the header). Needs the verif-hooks feature of resolvo_cpp (re-export of the container types). The shim also exercises resolvo::Pool<Id,T> (resolvo_pool.h) with std::string and resolvo::String; universes contain unlisted solvables and answers that lock / hint / exclude them.",
            "DESIGN.md 3/C17"),
    "C18": ("stateful property testing of Pool interning against reference maps with held references",
            "exploration",
            "Histories of intern/resolve/lookup calls across chunk boundaries are checked against HashMap/Vec models; raw copies of every returned reference are re-read after later insertions.",
            "Quick tier: reference stability is checked by comparing addresses and re-reading through saved raw pointers (stage `bulk`: up to 12000 items of one kind, crash-isolated). Thorough tier additionally runs the histories inside an AddressSanitizer-instrumented child and under Miri (validation, Stacked Borrows, leak check), so a dangling or moved reference is a reported error rather than luck.",
            "DESIGN.md 3/C18"),
    "C19": ("stateful property testing of Mapping against a BTreeMap model",
            "exploration",
            "Generated insert/unset/get/get_mut/iter/serde histories over dense, offset, sparse and chunk-edge id distributions, compared with BTreeMap after every step, in release and debug builds.",
            "Ids below ~1000 in the short histories, up to ~25000 in stage `long` (1500 operations, hundreds of successful removals, iteration compared after each). Thorough tier adds an AddressSanitizer stage and a Miri tier for the get_unchecked paths. The iterator is consumed in several styles (next + fold / count / map collect, nth, last, size_hint, fused).",
            "DESIGN.md 3/C19"),
    "C20": ("stateful property testing of SolverCache against the provider tables, incl. re-entrant queries from sort_candidates",
            "exploration",
            "Generated histories of direct cache calls are checked for partition, sort/rotation, idempotence (provider call log unchanged) and availability after every step; full solves with a probing sort_candidates check availability answers at call time.",
            "Synchronous provider for the direct histories; unions and abandoned requests (a caller dropped while suspended in the provider, with and without a second caller waiting) go through the harness scheduler; concurrent duplicates of one key are covered by C10. The cache's providers vary the form of their answers like the solving checks do (reverse filter order, size_hint of the union iterator). Abandoned candidates requests are tested with up to four waiting callers, like dependencies requests.",
            "DESIGN.md 3/C20"),
}

NOT_YET = {
}

def main():
    props = [json.loads(l) for l in open(os.path.join(ROOT, "properties.jsonl"))]
    ids = [p["id"] for p in props]
    hooks = []
    try:
        out = subprocess.run(["git", "-C", "/repo", "log", "--format=%H %s"], capture_output=True, text=True).stdout
        hooks = [l.split()[0] for l in out.splitlines() if " hook:" in l or l.split(" ", 1)[1].startswith("hook:")]
    except Exception:
        pass
    checks = []
    for i in ids:
        if i not in CHECKS:
            continue
        tech, cat, text, note, ref = CHECKS[i]
        checks.append({
            "property_id": i,
            "quick_cmd": f"./check {i} quick",
            "thorough_cmd": f"./check {i} thorough",
            "evidence_file": f"/verif/evidence/{i}.json",
            "replay_cmd_template": "./check replay {path}",
            "engine": "vrun",
            "level_claimed": {"category": cat, "text": text, "design_ref": ref},
            "level_note": note,
            "technique": tech,
        })
    na = [{"property_id": i, "reason": NOT_YET.get(i, "check not built yet in this round; planned in DESIGN.md (property-based testing applies)")}
          for i in ids if i not in CHECKS]
    manifest = {
        "version": 1,
        "setup_cmd": "./check build",
        "hooks": {
            "guard": "cargo feature `verif-hooks` (off by default)",
            "enable": "harness/ffi/Cargo.toml depends on resolvo_cpp with features = [\"verif-hooks\"] (re-export of the private container types Vector/String/Slice); every other check builds /repo without any hook",
            "baseline_off_cmd": "cd /repo && cargo test --workspace --no-fail-fast --offline",
            "source_commits": hooks,
            "add_only": True,
        },
        "engines": [
            {"name": "vrun", "path": "/verif/harness", "serves_properties": [c["property_id"] for c in checks],
             "kind_free_text": "Rust harness (toolchain 1.86.0; for C17 a second nightly build with AddressSanitizer + clang++-14 shim in harness/ffi): proptest-generated choice tapes -> universes/problems/schedules/histories, table-driven provider, harness-owned async scheduler, reference resolver and oracles, structural shrinking, replay files, evidence"},
        ],
        "checks": checks,
        "not_applicable": na,
        "notes": "Every check rebuilds the harness (path dependency on /repo) before running. Exit 0 = held, 1 = VIOLATION line with replay file, 2 = inconclusive (build failure, hang watchdog). Known findings live in /verif/known_findings.json.",
    }
    json.dump(manifest, open(os.path.join(ROOT, "MANIFEST.json"), "w"), indent=1)
    print("wrote MANIFEST.json with", len(checks), "checks;", len(na), "not_applicable")

if __name__ == "__main__":
    main()

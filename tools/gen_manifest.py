#!/usr/bin/env python3
"""Regenerates /verif/MANIFEST.json from the table below (run after adding a property check)."""
import json, subprocess, os

ROOT = os.path.dirname(os.path.dirname(os.path.abspath(__file__)))

# id -> (technique, level category, level text, level note, design ref)
CHECKS = {
    "C01": ("property-based testing (proptest tapes) against a validity predicate over the provider tables",
            "exploration",
            "Generated universes/problems/runtimes; every Ok(S) is checked against an independent validity predicate (requirements, constraints, constrains, exclusions, Unknown, locks, one-per-package) in release and debug builds. Exploration is the right level: the property quantifies over all providers and the oracle is exact on each generated case.",
            "Trusts the table-driven provider and the validity predicate (vcore/src/reference.rs); bounded universes (<=12 packages, <=6 candidates, ids < ~500).",
            "DESIGN.md 3/C01"),
    "C02": ("differential / metamorphic property-based testing against an exhaustive reference resolver",
            "exploration",
            "The verdict (Ok vs Unsolvable) is compared with an exact reference search on every generated case and on semantics-preserving variants (listing order, preference order, ids, hints, schedules, activity parameters).",
            "Trusts the reference search (self-checked: its solutions pass the validity predicate; variants must keep its verdict). Bounded universes; cases exceeding the reference node budget are skipped and counted.",
            "DESIGN.md 3/C02"),
    "C03": ("property-based testing: edge-truth, reachability and graph-only unsatisfiability (DPLL) oracles on the public ConflictGraph",
            "exploration",
            "For every generated unsatisfiable case the public conflict graph is checked edge by edge against the provider tables, for reachability, and for being unsatisfiable on its own.",
            "Trusts the oracle in vcore/src/oracle.rs; graphs of more than 64 nodes skip the DPLL step (never reached at generated sizes).",
            "DESIGN.md 3/C03"),
    "C04": ("property-based testing / fuzzing for panics, step budgets, deadlocks and output bounds in debug and release builds",
            "exploration",
            "Feature-interaction universes (hints x locks x exclusions x soft requirements x self references x cycles) are solved and rendered in builds with and without debug assertions; any panic, budget overrun, deadlock or oversized rendering is a violation.",
            "Termination is decided by poll/step budgets, output bounds and structural deadlock detection; a wall-clock watchdog (60 s per case, typical case < 1 ms) is only a backstop and reports exit 2.",
            "DESIGN.md 3/C04"),
    "C05": ("property-based testing against a support-closure oracle",
            "exploration",
            "Every returned solution must be contained in the closure reachable from the root requirements and accepted soft requirements through satisfied requirement edges.",
            "Trusts reach() in vcore/src/reference.rs; bounded universes.",
            "DESIGN.md 3/C05"),
}

NOT_YET = {
}

def main():
    props = [json.loads(l) for l in open(os.path.join(ROOT, "properties.jsonl"))]
    ids = [p["id"] for p in props]
    hooks = []
    try:
        out = subprocess.run(["git", "-C", "/repo", "log", "--format=%H %s"], capture_output=True, text=True).stdout
        hooks = [l.split()[0] for l in out.splitlines() if " hook:" in l or l.split(" ", 1)[1].startswith("hook:")]
    except Exception:
        pass
    checks = []
    for i in ids:
        if i not in CHECKS:
            continue
        tech, cat, text, note, ref = CHECKS[i]
        checks.append({
            "property_id": i,
            "quick_cmd": f"./check {i} quick",
            "thorough_cmd": f"./check {i} thorough",
            "evidence_file": f"/verif/evidence/{i}.json",
            "replay_cmd_template": "./check replay {path}",
            "engine": "vrun",
            "level_claimed": {"category": cat, "text": text, "design_ref": ref},
            "level_note": note,
            "technique": tech,
        })
    na = [{"property_id": i, "reason": NOT_YET.get(i, "check not built yet in this round; planned in DESIGN.md (property-based testing applies)")}
          for i in ids if i not in CHECKS]
    manifest = {
        "version": 1,
        "setup_cmd": "./check build",
        "hooks": {
            "guard": "cargo feature `verif-hooks` (off by default)",
            "enable": "the harness enables the feature on the path dependency when a hook is needed; no hook is required by the checks registered so far",
            "baseline_off_cmd": "cd /repo && cargo test --workspace --no-fail-fast --offline",
            "source_commits": hooks,
            "add_only": True,
        },
        "engines": [
            {"name": "vrun", "path": "/verif/harness", "serves_properties": [c["property_id"] for c in checks],
             "kind_free_text": "Rust harness (toolchain 1.86.0): proptest-generated choice tapes -> universes/problems/schedules/histories, table-driven provider, harness-owned async scheduler, reference resolver and oracles, structural shrinking, replay files, evidence"},
        ],
        "checks": checks,
        "not_applicable": na,
        "notes": "Every check rebuilds the harness (path dependency on /repo) before running. Exit 0 = held, 1 = VIOLATION line with replay file, 2 = inconclusive (build failure, hang watchdog). Known findings live in /verif/known_findings.json.",
    }
    json.dump(manifest, open(os.path.join(ROOT, "MANIFEST.json"), "w"), indent=1)
    print("wrote MANIFEST.json with", len(checks), "checks;", len(na), "not_applicable")

if __name__ == "__main__":
    main()

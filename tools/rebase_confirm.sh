#!/usr/bin/env bash
# tools/rebase_confirm.sh <PROP>/<name> <rebased.diff> : a stored seeded change whose patch no longer
# applies to /repo's HEAD (a later fix: commit touched the same lines) was merged by hand in the scratch
# worktree /tmp/sd/rb; re-confirm it there (suite passes, demonstration fails with it and passes without)
# and store the rebased patch, keeping the author's original as patch.orig.diff.
set -e
KEY="$1"; DIFF="$2"; PROP="${KEY%%/*}"; NAME="${KEY##*/}"
D=/verif/seeded/$KEY
M=/tmp/sd/m-$PROP-$NAME; rm -rf "$M"; mkdir -p "$M"
cp "$DIFF" "$M/patch.diff"; cp "$D"/*.rs "$M"/; cp "$D/notes.md" "$M/" 2>/dev/null || true
( cd /tmp/sd/rb && git reset -q --hard HEAD && git clean -fdq tests cpp/tests 2>/dev/null || true )
[ -f "$D/patch.orig.diff" ] || cp "$D/patch.diff" "$D/patch.orig.diff"
SUMMARY=$(python3 -c "import json;print(json.load(open('$D/meta.json')).get('summary',''))")
python3 /verif/tools/seeded.py confirm /tmp/sd/rb "$M" "$PROP" "$NAME" | tail -3
python3 - "$D" "$SUMMARY" <<'PY'
import json,sys
d,summary=sys.argv[1],sys.argv[2]
m=json.load(open(d+'/meta.json'))
m['summary']=summary
m['rebased']="patch.diff was merged by hand onto /repo's current HEAD after a fix: commit touched the same lines (the author's patch is patch.orig.diff) and re-confirmed"
json.dump(m,open(d+'/meta.json','w'),indent=1)
PY
rm -rf "$M"

//! Miri tier (thorough): replays generated histories of the unsafe-code containers under
//! the Miri interpreter so that a dangling / aliased / out-of-bounds access is a reported
//! error rather than luck. Input: a file with one tape per line (written by `vrun tapes`).
//!   vmiri <tapes-file> <C18|C19|C17>
#[path = "../../ffi/src/rustcont_core.rs"]
mod rustcont_core;

use vcore::props::registry::stages;

fn main() {
    let args: Vec<String> = std::env::args().collect();
    let text = std::fs::read_to_string(&args[1]).unwrap_or_default();
    let which = args[2].as_str();
    let mut n = 0u64;
    let mut nontrivial = 0u64;
    for line in text.lines() {
        let tape: Vec<u16> = line.split_whitespace().filter_map(|x| x.parse().ok()).collect();
        if tape.is_empty() {
            continue;
        }
        match which {
            "C17" => {
                let (fail, nt) = rustcont_core::run(&tape);
                if let Some(f) = fail {
                    println!("MIRI-VIOLATION C17 {f}");
                    std::process::exit(1);
                }
                nontrivial += nt as u64;
            }
            id => {
                for s in stages(id) {
                    // only the in-process stages (not the debug-profile or child-process ones)
                    if s.prop.stage() != "main" && s.prop.stage() != "fat" {
                        continue;
                    }
                    let rep = s.prop.eval(&tape);
                    if let Some(f) = rep.failure {
                        println!("MIRI-VIOLATION {id} {} {}", f.signature, f.detail);
                        std::process::exit(1);
                    }
                    nontrivial += rep.nontrivial as u64;
                }
            }
        }
        n += 1;
    }
    println!("MIRI-OK {which} histories={n} nontrivial={nontrivial}");
}

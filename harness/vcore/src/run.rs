//! Running resolvo on a model case and capturing everything observable through the
//! public API: outcome, conflict graph, rendered texts, provider call log, poll count,
//! scheduler statistics and search-depth labels (from resolvo's own tracing events).

use crate::model::*;
use crate::provider::*;
use crate::sched::*;
use petgraph::visit::EdgeRef;
use resolvo::conflict::{ConflictCause, ConflictEdge, ConflictNode};
use resolvo::runtime::NowOrNeverRuntime;
use resolvo::{Problem as RProblem, Requirement, Solver, UnsolvableOrCancelled, VersionSetId};
use std::cell::{Cell, RefCell};
use std::panic::{catch_unwind, AssertUnwindSafe};
use std::rc::Rc;

// ---------------------------------------------------------------- panic capture

#[derive(Clone, Debug, Default, PartialEq, Eq, serde::Serialize, serde::Deserialize)]
pub struct PanicInfo {
    pub message: String,
    pub file: String,
    pub line: u32,
    /// innermost `resolvo` frame (function path), "" if none was found
    pub function: String,
}

impl PanicInfo {
    /// signature that is stable under line shifts
    pub fn signature(&self) -> String {
        let file = self.file.rsplit('/').next().unwrap_or("");
        let first_line = self.message.lines().next().unwrap_or("");
        let msg: String = first_line.chars().take(70).collect();
        format!("panic@{file}:{}:{}", self.function, msg)
    }
}

thread_local! {
    static LAST_PANIC: RefCell<Option<PanicInfo>> = const { RefCell::new(None) };
    static QUIET: Cell<bool> = const { Cell::new(true) };
}

static FUNC_CACHE: std::sync::Mutex<Vec<((String, u32), String)>> = std::sync::Mutex::new(Vec::new());

fn innermost_resolvo_frame() -> String {
    // Frame names are short ("requires<..>") with line-table debuginfo, fully qualified
    // otherwise; take the first frame after the panic machinery and strip generics.
    let bt = std::backtrace::Backtrace::force_capture().to_string();
    if std::env::var_os("VERIF_DEBUG_BT").is_some() {
        eprintln!("{bt}");
    }
    const SKIP: [&str; 14] = [
        "innermost_resolvo_frame",
        "{closure",
        "<alloc::boxed",
        "std::panicking",
        "core::panicking",
        "std::sys::backtrace",
        "rust_begin_unwind",
        "core::option::",
        "core::result::",
        "std::backtrace",
        "core::ops::function",
        "core::slice::index",
        "core::cell::",
        "std::panic",
    ];
    for line in bt.lines() {
        let l = line.trim();
        let Some(pos) = l.find(": ") else { continue };
        if !l[..pos].chars().all(|c| c.is_ascii_digit()) {
            continue;
        }
        let f = &l[pos + 2..];
        if SKIP.iter().any(|s| f.starts_with(s)) {
            continue;
        }
        let f = f.split('<').next().unwrap_or(f);
        let f = f.split("::h").next().unwrap_or(f);
        return f.rsplit("::").next().unwrap_or(f).to_string();
    }
    String::new()
}

pub fn install_panic_hook() {
    static ONCE: std::sync::Once = std::sync::Once::new();
    ONCE.call_once(|| {
        let default = std::panic::take_hook();
        std::panic::set_hook(Box::new(move |info| {
            let message = if let Some(s) = info.payload().downcast_ref::<&str>() {
                s.to_string()
            } else if let Some(s) = info.payload().downcast_ref::<String>() {
                s.clone()
            } else {
                "<non-string panic payload>".to_string()
            };
            let (file, line) = info
                .location()
                .map(|l| (l.file().to_string(), l.line()))
                .unwrap_or_default();
            let key = (file.clone(), line);
            let cached = FUNC_CACHE
                .lock()
                .ok()
                .and_then(|c| c.iter().find(|(k, _)| *k == key).map(|(_, v)| v.clone()));
            let function = match cached {
                Some(f) => f,
                None => {
                    let f = if message.starts_with("HARNESS") {
                        String::new()
                    } else {
                        innermost_resolvo_frame()
                    };
                    if let Ok(mut c) = FUNC_CACHE.lock() {
                        c.push((key, f.clone()));
                    }
                    f
                }
            };
            LAST_PANIC.with(|p| {
                *p.borrow_mut() = Some(PanicInfo {
                    message,
                    file,
                    line,
                    function,
                })
            });
            if !QUIET.with(|q| q.get()) {
                default(info);
            }
        }));
    });
}

pub fn set_quiet(q: bool) {
    QUIET.with(|c| c.set(q));
}

/// Runs `f`, converting a panic into `Err(PanicInfo)`.
pub fn guarded<T>(f: impl FnOnce() -> T) -> Result<T, PanicInfo> {
    install_panic_hook();
    LAST_PANIC.with(|p| *p.borrow_mut() = None);
    match catch_unwind(AssertUnwindSafe(f)) {
        Ok(v) => Ok(v),
        Err(_) => Err(LAST_PANIC
            .with(|p| p.borrow_mut().take())
            .unwrap_or_else(|| PanicInfo {
                message: "<panic without hook info>".into(),
                ..Default::default()
            })),
    }
}

// ---------------------------------------------------------------- labels via tracing

#[derive(Clone, Copy, Debug, Default, PartialEq, Eq, serde::Serialize, serde::Deserialize)]
pub struct Labels {
    pub decisions: u32,
    pub conflicts: u32,
    pub learnt: u32,
    pub backjumps: u32,
    pub restarts: u32,
}

thread_local! {
    /// the subscriber of this thread also enables TRACE events (a user who installs a verbose
    /// subscriber: the arguments of resolvo's trace! calls are evaluated only then)
    static TRACE_ON: Cell<bool> = const { Cell::new(false) };
}

thread_local! {
    static LABELS: Cell<Labels> = const { Cell::new(Labels { decisions: 0, conflicts: 0, learnt: 0, backjumps: 0, restarts: 0 }) };
}

struct PrefixBuf {
    buf: [u8; 40],
    len: usize,
}
impl std::fmt::Write for PrefixBuf {
    fn write_str(&mut self, s: &str) -> std::fmt::Result {
        for &b in s.as_bytes() {
            if self.len >= self.buf.len() {
                return Err(std::fmt::Error);
            }
            self.buf[self.len] = b;
            self.len += 1;
        }
        Ok(())
    }
}

struct MsgVisitor;
impl tracing::field::Visit for MsgVisitor {
    fn record_debug(&mut self, field: &tracing::field::Field, value: &dyn std::fmt::Debug) {
        if field.name() != "message" {
            return;
        }
        let mut b = PrefixBuf {
            buf: [0; 40],
            len: 0,
        };
        let _ = std::fmt::write(&mut b, format_args!("{value:?}"));
        let s = &b.buf[..b.len];
        let starts = |p: &str| s.starts_with(p.as_bytes());
        LABELS.with(|l| {
            let mut v = l.get();
            if starts("╒══ Install") {
                v.decisions += 1;
            } else if starts("├┬ Propagation conflicted") {
                v.conflicts += 1;
            } else if starts("│├ Learnt disjunction") {
                v.learnt += 1;
            } else if starts("│└ Backtracked from") {
                v.backjumps += 1;
            } else if starts("├─ added clause") || starts("├─ Added clause") {
                v.restarts += 1;
            }
            l.set(v);
        });
    }
}

struct LabelSubscriber;
impl tracing::Subscriber for LabelSubscriber {
    fn register_callsite(&self, m: &'static tracing::Metadata<'static>) -> tracing::subscriber::Interest {
        // never cache a verdict: `enabled` depends on the thread it is asked on
        if m.target().starts_with("resolvo") {
            tracing::subscriber::Interest::sometimes()
        } else {
            tracing::subscriber::Interest::never()
        }
    }
    fn enabled(&self, m: &tracing::Metadata<'_>) -> bool {
        (*m.level() <= tracing::Level::DEBUG || TRACE_ON.with(|t| t.get())) && m.target().starts_with("resolvo")
    }
    fn new_span(&self, _: &tracing::span::Attributes<'_>) -> tracing::span::Id {
        tracing::span::Id::from_u64(1)
    }
    fn record(&self, _: &tracing::span::Id, _: &tracing::span::Record<'_>) {}
    fn record_follows_from(&self, _: &tracing::span::Id, _: &tracing::span::Id) {}
    fn event(&self, event: &tracing::Event<'_>) {
        event.record(&mut MsgVisitor);
    }
    fn enter(&self, _: &tracing::span::Id) {}
    fn exit(&self, _: &tracing::span::Id) {}
}

/// Runs `f` with the label-counting subscriber installed on this thread.
pub fn with_labels<T>(f: impl FnOnce() -> T) -> (T, Labels) {
    with_labels_trace(false, f)
}

/// `trace`: the subscriber is a verbose one (TRACE level). Callsite interest is cached per
/// callsite by `tracing`, so the cache is rebuilt whenever the level of this thread changes.
pub fn with_labels_trace<T>(trace: bool, f: impl FnOnce() -> T) -> (T, Labels) {
    LABELS.with(|l| l.set(Labels::default()));
    let before = TRACE_ON.with(|t| t.replace(trace));
    struct Restore(bool);
    impl Drop for Restore {
        fn drop(&mut self) {
            TRACE_ON.with(|t| t.set(self.0));
        }
    }
    let _restore = Restore(before);
    let r = tracing::subscriber::with_default(LabelSubscriber, f);
    (r, LABELS.with(|l| l.get()))
}

// ---------------------------------------------------------------- conflict graph data

#[derive(Clone, Debug, PartialEq, Eq, Hash, serde::Serialize, serde::Deserialize)]
pub enum GNode {
    Root,
    Solvable(u32),
    Unresolved,
    Excluded(u32),
}

#[derive(Clone, Debug, PartialEq, Eq, Hash, serde::Serialize, serde::Deserialize)]
pub enum GReq {
    Single(u32),
    Union(u32),
}

#[derive(Clone, Debug, PartialEq, Eq, Hash, serde::Serialize, serde::Deserialize)]
pub enum GEdge {
    Requires(GReq),
    Constrains(u32),
    Locked(u32),
    Forbid,
    Excluded,
}

#[derive(Clone, Debug, Default, PartialEq, Eq, serde::Serialize, serde::Deserialize)]
pub struct GraphData {
    pub nodes: Vec<GNode>,
    pub edges: Vec<(usize, usize, GEdge)>,
    pub root: usize,
    pub unresolved: Option<usize>,
}

#[derive(Clone, Debug, Default, PartialEq, Eq, serde::Serialize, serde::Deserialize)]
pub struct UnsatData {
    pub graph: GraphData,
    pub message: String,
    pub dot: String,
    pub dot_simplified: String,
    /// which rendering exceeded its size bound, if any
    pub overflow: Option<String>,
}

#[derive(Clone, Debug, PartialEq, Eq, serde::Serialize, serde::Deserialize)]
pub enum Outcome {
    Sat(Vec<u32>),
    Unsat(Box<UnsatData>),
    Cancelled(u64),
    /// cancellation payload was not the u64 the provider returned
    CancelledForeign,
    Panic(PanicInfo),
    /// a panic while building / rendering the conflict (solve itself returned Unsolvable)
    RenderPanic(PanicInfo),
    Deadlock,
    StepBudget,
    ObserverFail(String),
}

impl Outcome {
    pub fn kind(&self) -> &'static str {
        match self {
            Outcome::Sat(_) => "sat",
            Outcome::Unsat(_) => "unsat",
            Outcome::Cancelled(_) => "cancelled",
            Outcome::CancelledForeign => "cancelled-foreign",
            Outcome::Panic(_) => "panic",
            Outcome::RenderPanic(_) => "render-panic",
            Outcome::Deadlock => "deadlock",
            Outcome::StepBudget => "step-budget",
            Outcome::ObserverFail(_) => "observer-fail",
        }
    }
}

/// Memory cap for captured renderings: conflicts of the deep-chain stage have legitimate
/// messages of gigabytes (indentation grows with the depth); past the cap the text is
/// truncated without a verdict.
const RENDER_CAP: usize = 8 << 20;

struct BoundedString {
    s: String,
    limit: usize,
    overflow: bool,
}
impl std::fmt::Write for BoundedString {
    fn write_str(&mut self, x: &str) -> std::fmt::Result {
        if self.s.len() + x.len() > RENDER_CAP && self.limit > RENDER_CAP {
            // truncated, not a verdict
            return Err(std::fmt::Error);
        }
        if self.s.len() + x.len() > self.limit {
            self.overflow = true;
            return Err(std::fmt::Error);
        }
        self.s.push_str(x);
        Ok(())
    }
}
struct BoundedBytes {
    b: Vec<u8>,
    limit: usize,
    overflow: bool,
}
impl std::io::Write for BoundedBytes {
    fn write(&mut self, x: &[u8]) -> std::io::Result<usize> {
        if self.b.len() + x.len() > self.limit {
            self.overflow = true;
            return Err(std::io::Error::new(std::io::ErrorKind::Other, "bound"));
        }
        self.b.extend_from_slice(x);
        Ok(x.len())
    }
    fn flush(&mut self) -> std::io::Result<()> {
        Ok(())
    }
}

fn greq(r: Requirement) -> GReq {
    match r {
        Requirement::Single(v) => GReq::Single(v.0),
        Requirement::Union(v) => GReq::Union(v.0),
    }
}

// ---------------------------------------------------------------- sessions

#[derive(Clone, Debug, PartialEq, Eq, serde::Serialize, serde::Deserialize)]
pub enum Runtime {
    Sync,
    Async { policy: Policy, immediate: Vec<u16> },
}

#[derive(Clone, Debug, PartialEq, serde::Serialize, serde::Deserialize)]
pub struct RunCfg {
    pub runtime: Runtime,
    pub cancel: Cancel,
    pub activity: Option<(f32, f32)>,
    /// count search-depth labels through tracing (costs time; never used in a verdict)
    pub labels: bool,
    /// render conflict (message + graphviz) on unsat
    pub render: bool,
    /// behaviour of the provider's sort_candidates (re-entrant cache queries)
    #[serde(default)]
    pub sort_probe: crate::provider::SortProbe,
}

impl Default for RunCfg {
    fn default() -> Self {
        RunCfg {
            runtime: Runtime::Sync,
            cancel: Cancel::Never,
            activity: None,
            labels: false,
            render: true,
            sort_probe: crate::provider::SortProbe::Off,
        }
    }
}

pub enum AnySolver {
    Sync(Solver<TableProvider, NowOrNeverRuntime>),
    Async(Solver<TableProvider, SchedRuntime>),
}

pub struct Session {
    pub solver: Option<AnySolver>,
    pub sched: Option<Rc<Sched>>,
    pub u: Rc<Universe>,
}

#[derive(Clone, Debug)]
pub struct StepResult {
    pub outcome: Outcome,
    /// provider calls made during this step
    pub log: Vec<Call>,
    /// cancellation polls during this step
    pub polls: u64,
    pub labels: Labels,
    pub quiescent_trace: Vec<usize>,
    pub out_of_order: usize,
}

macro_rules! with_solver {
    ($any:expr, $s:ident => $body:expr) => {
        match $any {
            AnySolver::Sync($s) => $body,
            AnySolver::Async($s) => $body,
        }
    };
}

impl Session {
    pub fn new(u: Rc<Universe>, runtime: &Runtime, activity: Option<(f32, f32)>) -> Session {
        match runtime {
            Runtime::Sync => {
                let provider = TableProvider::new(u.clone());
                provider.vary_answers();
                // one universe in sixteen: some candidate lists name a solvable twice
                provider.dup_listing.set(crate::runner::hash_of(&(&*u, 5u8)) % 16 == 0);
                let mut s = Solver::new(provider);
                if let Some((a, d)) = activity {
                    s = s.with_activity_params(a, d);
                }
                Session {
                    solver: Some(AnySolver::Sync(s)),
                    sched: None,
                    u,
                }
            }
            Runtime::Async { policy, immediate } => {
                let sched = Sched::new(policy.clone(), immediate.clone());
                let provider = TableProvider::new(u.clone()).with_sched(sched.clone());
                provider.vary_answers();
                // one universe in sixteen: some candidate lists name a solvable twice
                provider.dup_listing.set(crate::runner::hash_of(&(&*u, 5u8)) % 16 == 0);
                // a fifth of the universes: requests that take two scheduler completions
                provider.two_step.set(crate::runner::hash_of(&(&*u, 2u8)) % 5 == 0);
                let mut s = Solver::new(provider).with_runtime(SchedRuntime {
                    sched: sched.clone(),
                });
                if let Some((a, d)) = activity {
                    s = s.with_activity_params(a, d);
                }
                Session {
                    solver: Some(AnySolver::Async(s)),
                    sched: Some(sched),
                    u,
                }
            }
        }
    }

    pub fn provider(&self) -> &TableProvider {
        with_solver!(self.solver.as_ref().expect("solver poisoned"), s => s.provider())
    }

    pub fn poisoned(&self) -> bool {
        self.solver.is_none()
    }

    /// One `solve` call on this session's solver.
    pub fn solve(&mut self, problem: &Problem, cancel: Cancel, labels: bool, render: bool) -> StepResult {
        let u = self.u.clone();
        let (reqs, cons, soft) = {
            let p = self.provider();
            p.cancel.set(cancel);
            p.polls.set(0);
            p.take_log();
            (
                problem.reqs.iter().map(|r| p.to_requirement(r)).collect::<Vec<_>>(),
                problem
                    .constraints
                    .iter()
                    .map(|&v| VersionSetId(u.vsets[v].id))
                    .collect::<Vec<_>>(),
                problem.soft.iter().map(|&s| p.sid(s)).collect::<Vec<_>>(),
            )
        };
        if let Some(s) = &self.sched {
            s.trace.borrow_mut().clear();
            s.out_of_order.set(0);
        }
        let mut solver = self.solver.take().expect("solver poisoned");
        let run = |solver: &mut AnySolver| -> Outcome {
            let rp = RProblem::new()
                .requirements(reqs.clone())
                .constraints(cons.clone())
                .soft_requirements(soft.clone());
            with_solver!(solver, s => {
                match s.solve(rp) {
                    Ok(sol) => Outcome::Sat(sol.into_iter().map(|x| x.0).collect()),
                    Err(UnsolvableOrCancelled::Cancelled(v)) => match v.downcast::<u64>() {
                        Ok(k) => Outcome::Cancelled(*k),
                        Err(_) => Outcome::CancelledForeign,
                    },
                    Err(UnsolvableOrCancelled::Unsolvable(conflict)) => {
                        let r = guarded(|| {
                            // A provider's cancellation token may be raised after solve has returned
                            // (deadline, Ctrl-C): rendering must still finish and say the same. When
                            // rendering is checked, the FIRST graph and message are built with the
                            // token raised, while nothing has been cached by an earlier rendering.
                            let prev_cancel = s.provider().cancel.get();
                            // (the graph itself is always first built with the token raised)
                            s.provider().cancel.set(Cancel::Sticky(0));
                            let graph = conflict.graph(s);
                            if !render {
                                s.provider().cancel.set(prev_cancel);
                            }
                            let mut gd = GraphData::default();
                            let g = &graph.graph;
                            let mut map = std::collections::HashMap::new();
                            for nx in g.node_indices() {
                                let n = match g[nx] {
                                    ConflictNode::Solvable(id) => match id.solvable() {
                                        None => GNode::Root,
                                        Some(sid) => GNode::Solvable(sid.0),
                                    },
                                    ConflictNode::UnresolvedDependency => GNode::Unresolved,
                                    ConflictNode::Excluded(sid) => GNode::Excluded(sid.0),
                                };
                                map.insert(nx, gd.nodes.len());
                                gd.nodes.push(n);
                            }
                            for e in g.edge_references() {
                                let w = match *e.weight() {
                                    ConflictEdge::Requires(r) => GEdge::Requires(greq(r)),
                                    ConflictEdge::Conflict(ConflictCause::Constrains(v)) => GEdge::Constrains(v.0),
                                    ConflictEdge::Conflict(ConflictCause::Locked(sid)) => GEdge::Locked(sid.0),
                                    ConflictEdge::Conflict(ConflictCause::ForbidMultipleInstances) => GEdge::Forbid,
                                    ConflictEdge::Conflict(ConflictCause::Excluded) => GEdge::Excluded,
                                };
                                gd.edges.push((map[&e.source()], map[&e.target()], w));
                            }
                            gd.root = map[&graph.root_node];
                            gd.unresolved = graph.unresolved_node.map(|n| map[&n]);
                            let mut data = UnsatData { graph: gd, ..Default::default() };
                            if render {
                                let n = data.graph.nodes.len();
                                let m = data.graph.edges.len();
                                // the longest text one requirement can contribute to a label or a
                                // line (a union of dozens of version sets is one long label)
                                let label_max = (0..u.unions.len())
                                    .map(|i| u.display_req(&Req::Union(i)).len())
                                    .max()
                                    .unwrap_or(0);
                                let quad = (n + m + 2).pow(2) + (n + m + 2) * label_max / 16;
                                let mut cancelled = BoundedString { s: String::new(), limit: 4096 + quad * 64, overflow: false };
                                let disp2 = conflict.display_user_friendly(s);
                                let _ = std::fmt::write(&mut cancelled, format_args!("{disp2}"));
                                s.provider().cancel.set(prev_cancel);
                                let cancelled_nodes = n;
                                let n = conflict.graph(s).graph.node_count();
                                let mut msg = BoundedString { s: String::new(), limit: 4096 + quad * 64, overflow: false };
                                let disp = conflict.display_user_friendly(s);
                                let _ = std::fmt::write(&mut msg, format_args!("{disp}"));
                                if msg.overflow || cancelled.overflow {
                                    data.overflow = Some("display_user_friendly".into());
                                } else if cancelled.s != msg.s || cancelled_nodes != n {
                                    data.overflow = Some("render-differs-with-raised-cancellation".into());
                                }
                                data.message = msg.s;
                                for (simplify, slot) in [(false, 0), (true, 1)] {
                                    let mut out = BoundedBytes { b: vec![], limit: 64 + (256 + 2 * label_max) * (m + 1), overflow: false };
                                    let _ = graph.graphviz(&mut out, s.provider(), simplify);
                                    if out.overflow {
                                        data.overflow = Some(format!("graphviz(simplify={simplify})"));
                                    }
                                    let text = String::from_utf8_lossy(&out.b).to_string();
                                    if slot == 0 { data.dot = text } else { data.dot_simplified = text }
                                }
                            }
                            data
                        });
                        match r {
                            Ok(d) => Outcome::Unsat(Box::new(d)),
                            Err(p) => Outcome::RenderPanic(p),
                        }
                    }
                }
            })
        };
        // one universe in eight is solved under a TRACE-level subscriber (whether or not the
        // check reads the search-depth labels)
        let verbose = crate::runner::hash_of(&(&*self.u, 3u8)) % 8 == 0;
        let (res, lab) = if labels || verbose {
            with_labels_trace(verbose, || guarded(|| run(&mut solver)))
        } else {
            (guarded(|| run(&mut solver)), Labels::default())
        };
        let outcome = match res {
            Ok(Outcome::Cancelled(k)) if k == BUDGET_MARK => {
                self.solver = Some(solver);
                Outcome::StepBudget
            }
            Ok(o) => {
                self.solver = Some(solver);
                o
            }
            Err(p) => {
                // the solver may be in an arbitrary state: do not reuse, but keep for log access
                self.solver = Some(solver);
                if p.message.starts_with("HARNESS-DEADLOCK") {
                    Outcome::Deadlock
                } else if p.message.starts_with(STEPS_MSG) {
                    Outcome::StepBudget
                } else if p.message.starts_with(OBSERVER_MSG) {
                    let e = self
                        .sched
                        .as_ref()
                        .and_then(|s| s.observer_error.borrow_mut().take())
                        .unwrap_or_default();
                    Outcome::ObserverFail(e)
                } else {
                    Outcome::Panic(p)
                }
            }
        };
        let (log, polls) = {
            let p = self.provider();
            (p.take_log(), p.polls.get())
        };
        let (trace, ooo) = self
            .sched
            .as_ref()
            .map(|s| (s.trace.borrow().clone(), s.out_of_order.get()))
            .unwrap_or_default();
        StepResult {
            outcome,
            log,
            polls,
            labels: lab,
            quiescent_trace: trace,
            out_of_order: ooo,
        }
    }
}

/// Convenience: fresh solver, one solve.
pub fn run_once(u: &Rc<Universe>, problem: &Problem, cfg: &RunCfg) -> StepResult {
    let mut s = Session::new(u.clone(), &cfg.runtime, cfg.activity);
    s.provider().probe.set(cfg.sort_probe);
    s.solve(problem, cfg.cancel, cfg.labels, cfg.render)
}

/// Map a solution (solvable ids) back to model references; `Err(id)` for an unknown id.
pub fn solution_refs(ix: &Index, sol: &[u32]) -> Result<Vec<SRef>, u32> {
    sol.iter()
        .map(|id| ix.solvable.get(id).copied().ok_or(*id))
        .collect()
}

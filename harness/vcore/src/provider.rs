//! `TableProvider`: a `DependencyProvider` whose answers are read straight from a
//! `Universe`. It records every call, owns a cancellation poll counter, and (when a
//! scheduler is attached) makes every provider future wait for the harness scheduler.

use crate::model::*;
use crate::sched::{Gate, ReqKind, Sched};
use resolvo::{
    Candidates, Dependencies, DependencyProvider, HintDependenciesAvailable, Interner,
    KnownDependencies, NameId, Requirement, SolvableId, SolverCache, StringId, VersionSetId,
    VersionSetUnionId,
};
use std::any::Any;
use std::cell::{Cell, RefCell};
use std::fmt::Display;
use std::rc::Rc;

#[derive(Clone, Debug, PartialEq, Eq, Hash, serde::Serialize, serde::Deserialize)]
pub enum Call {
    GetCandidates(u32),
    GetDependencies(u32),
    Filter(u32, bool),
    Sort(Vec<u32>),
    /// cancellation poll number k fired (second field: provider requests outstanding then)
    Poll(u64, usize),
    /// a gated request completed (kind, key)
    Completed(ReqKind, u32),
    /// a gated request was dropped by its caller before the provider answered (kind, key)
    Dropped(ReqKind, u32),
}

#[derive(Clone, Copy, Debug, PartialEq, Eq, serde::Serialize, serde::Deserialize)]
pub enum Cancel {
    Never,
    /// fire only at poll index k
    Transient(u64),
    /// fire at poll index k and ever after
    Sticky(u64),
}

/// Value carried by cancellation triggered by the step budget.
pub const BUDGET_MARK: u64 = u64::MAX;

#[derive(Clone, Copy, Debug, PartialEq, Eq, Default, serde::Serialize, serde::Deserialize)]
pub enum SortProbe {
    #[default]
    Off,
    /// `sort_candidates` re-enters the `SolverCache` (candidates of the package of the first
    /// solvable, dependencies availability of each) and records what it saw.
    On,
    /// `sort_candidates` looks at what the candidates depend on, as conda-style providers
    /// do to rank by the versions of dependencies: for the first few solvables it asks the
    /// cache for their dependencies and then for the candidates of every package those
    /// mention. These nested requests may be the FIRST request for such a package.
    Deps,
    /// as `Deps`, but the first nested dependencies request of every sort call is dropped if the
    /// provider does not answer at once (a ranking heuristic with a "don't wait" policy) and
    /// made again afterwards: requests are abandoned while other callers wait for them
    DepsAbandon,
}

pub struct TableProvider {
    pub u: Rc<Universe>,
    pub ix: Rc<Index>,
    pub log: Rc<RefCell<Vec<Call>>>,
    pub polls: Cell<u64>,
    pub cancel: Cell<Cancel>,
    pub poll_budget: Cell<u64>,
    pub sched: Option<Rc<Sched>>,
    pub probe: Cell<SortProbe>,
    /// observations made by the probing sort: (solvable id, are_dependencies_available_for)
    pub probe_log: RefCell<Vec<(u32, bool, bool)>>,
    /// record Filter/Sort calls too (off by default to keep logs small)
    pub log_all: Cell<bool>,
    /// filter_candidates answers in reverse listing order (the trait does not promise any
    /// order, and callers must not assume one)
    pub filter_reversed: Cell<bool>,
    /// `version_sets_in_union` returns an iterator without an upper size bound (as a
    /// flat_map / from_fn based implementation would)
    pub union_iter_unbounded: Cell<bool>,
    /// `version_sets_in_union` reports a lower size bound of 1 whatever follows (as
    /// `once(first).chain(rest.filter(..))` does)
    pub union_iter_lower_one: Cell<bool>,
    /// `sort_candidates` is a stable sort on a key that ties pairs of candidates: the result then
    /// depends on the order of the slice it is given (deterministic, but not a total order of
    /// its own)
    pub sort_ties: Cell<bool>,
    /// asynchronous provider: about half of the requests need TWO completions by the scheduler
    /// (the future returns Pending again after its first wake-up, as a provider that does two
    /// I/O steps per request would)
    pub two_step: Cell<bool>,
    /// `Candidates::candidates` of some packages names a solvable twice
    pub dup_listing: Cell<bool>,
    /// once cancellation has been signalled the provider completes no request any more
    pub freeze_on_cancel: Cell<bool>,
    /// SortProbe::DepsAbandon: one nested request has been abandoned already
    pub abandoned_once: Cell<bool>,
    pub cands_abandoned_once: Cell<bool>,
}

impl TableProvider {
    pub fn new(u: Rc<Universe>) -> Self {
        let ix = Rc::new(Index::new(&u));
        // step budget: far above any legitimate count (largest seen in millions of ordinary
        // cases: < 300 polls; huge-package stages: a few thousand), scaled with the universe
        let solvables: u64 = u.packages.iter().map(|p| p.cands.len() as u64).sum();
        let budget = 50_000u64.max(solvables * 100);
        TableProvider {
            u,
            ix,
            log: Rc::new(RefCell::new(Vec::new())),
            polls: Cell::new(0),
            cancel: Cell::new(Cancel::Never),
            poll_budget: Cell::new(budget),
            sched: None,
            probe: Cell::new(SortProbe::Off),
            probe_log: RefCell::new(Vec::new()),
            log_all: Cell::new(false),
            filter_reversed: Cell::new(false),
            union_iter_unbounded: Cell::new(false),
            union_iter_lower_one: Cell::new(false),
            sort_ties: Cell::new(false),
            two_step: Cell::new(false),
            dup_listing: Cell::new(false),
            freeze_on_cancel: Cell::new(false),
            abandoned_once: Cell::new(false),
            cands_abandoned_once: Cell::new(false),
        }
    }

    pub fn with_sched(mut self, s: Rc<Sched>) -> Self {
        self.sched = Some(s);
        self
    }

    fn sref(&self, s: SolvableId) -> SRef {
        *self
            .ix
            .solvable
            .get(&s.0)
            .unwrap_or_else(|| panic!("HARNESS: unknown solvable id {}", s.0))
    }

    fn vs(&self, v: VersionSetId) -> usize {
        *self
            .ix
            .vset
            .get(&v.0)
            .unwrap_or_else(|| panic!("HARNESS: unknown version set id {}", v.0))
    }

    pub fn sid(&self, s: SRef) -> SolvableId {
        SolvableId(self.u.cand(s).sid)
    }

    pub fn to_requirement(&self, r: &Req) -> Requirement {
        match r {
            Req::Single(v) => Requirement::Single(VersionSetId(self.u.vsets[*v].id)),
            Req::Union(un) => Requirement::Union(VersionSetUnionId(self.u.unions[*un].id)),
        }
    }

    /// The form of the provider's answers, as a pure function of the universe: a quarter of the
    /// universes get `filter_candidates` answers in reverse listing order (the trait promises no
    /// order; nothing the solver computes may depend on it), and the iterator handed out by
    /// `version_sets_in_union` reports its size exactly, not at all, or with a lower bound of one.
    pub fn vary_answers(&self) {
        self.filter_reversed.set(crate::runner::hash_of(&*self.u) % 4 == 0);
        match crate::runner::hash_of(&(&*self.u, 1u8)) % 6 {
            0 => self.union_iter_unbounded.set(true),
            1 => self.union_iter_lower_one.set(true),
            _ => {}
        }
    }

    pub fn from_requirement(&self, r: Requirement) -> Option<Req> {
        match r {
            Requirement::Single(v) => self.ix.vset.get(&v.0).map(|&i| Req::Single(i)),
            Requirement::Union(v) => self.ix.union.get(&v.0).map(|&i| Req::Union(i)),
        }
    }

    pub fn dependencies_of(&self, s: SRef) -> Dependencies {
        match &self.u.cand(s).deps {
            Deps::Unknown(r) => Dependencies::Unknown(StringId(self.u.strings[*r].id)),
            Deps::Known { reqs, constrains } => Dependencies::Known(KnownDependencies {
                requirements: reqs.iter().map(|r| self.to_requirement(r)).collect(),
                constrains: constrains
                    .iter()
                    .map(|&v| VersionSetId(self.u.vsets[v].id))
                    .collect(),
            }),
        }
    }

    pub fn candidates_of(&self, pkg: usize) -> Option<Candidates> {
        candidates_answer(&self.u, pkg, self.dup_listing.get())
    }

    async fn gate(&self, kind: ReqKind, key: u32) {
        if let Some(s) = &self.sched {
            struct LogDrop<'a> {
                log: &'a RefCell<Vec<Call>>,
                kind: ReqKind,
                key: u32,
                done: bool,
            }
            impl Drop for LogDrop<'_> {
                fn drop(&mut self) {
                    if !self.done {
                        self.log.borrow_mut().push(Call::Dropped(self.kind, self.key));
                    }
                }
            }
            let mut guard = LogDrop { log: &self.log, kind, key, done: false };
            Gate::new(s.clone(), kind, key).await;
            if self.two_step.get() && matches!(kind, ReqKind::Candidates | ReqKind::Dependencies) && (key ^ (key >> 3)) & 1 == 0 {
                Gate::new(s.clone(), kind, key).await;
            }
            guard.done = true;
            self.log.borrow_mut().push(Call::Completed(kind, key));
        }
    }

    pub fn take_log(&self) -> Vec<Call> {
        std::mem::take(&mut *self.log.borrow_mut())
    }
}

impl Interner for TableProvider {
    fn display_solvable(&self, solvable: SolvableId) -> impl Display + '_ {
        self.u.display_solvable(self.sref(solvable))
    }

    fn display_name(&self, name: NameId) -> impl Display + '_ {
        let pi = *self
            .ix
            .name
            .get(&name.0)
            .unwrap_or_else(|| panic!("HARNESS: unknown name id {}", name.0));
        self.u.packages[pi].name.clone()
    }

    fn display_version_set(&self, version_set: VersionSetId) -> impl Display + '_ {
        self.u.display_vs(self.vs(version_set))
    }

    fn display_string(&self, string_id: StringId) -> impl Display + '_ {
        let i = *self
            .ix
            .string
            .get(&string_id.0)
            .unwrap_or_else(|| panic!("HARNESS: unknown string id {}", string_id.0));
        self.u.strings[i].text.clone()
    }

    fn version_set_name(&self, version_set: VersionSetId) -> NameId {
        NameId(self.u.packages[self.u.vsets[self.vs(version_set)].pkg].name_id)
    }

    fn solvable_name(&self, solvable: SolvableId) -> NameId {
        NameId(self.u.packages[self.sref(solvable).pkg].name_id)
    }

    fn version_sets_in_union(
        &self,
        version_set_union: VersionSetUnionId,
    ) -> impl Iterator<Item = VersionSetId> {
        let i = *self
            .ix
            .union
            .get(&version_set_union.0)
            .unwrap_or_else(|| panic!("HARNESS: unknown union id {}", version_set_union.0));
        let unbounded = self.union_iter_unbounded.get();
        let lower_one = self.union_iter_lower_one.get();
        UnionIter {
            inner: self.u.unions[i]
                .members
                .iter()
                .map(|&m| VersionSetId(self.u.vsets[m].id))
                .collect::<Vec<_>>()
                .into_iter(),
            unbounded,
            lower_one,
        }
    }
}

/// The members of a union; optionally without an upper size bound, as a flat_map / from_fn
/// based provider implementation would return.
pub struct UnionIter {
    inner: std::vec::IntoIter<VersionSetId>,
    unbounded: bool,
    lower_one: bool,
}

impl Iterator for UnionIter {
    type Item = VersionSetId;
    fn next(&mut self) -> Option<VersionSetId> {
        self.inner.next()
    }
    fn size_hint(&self) -> (usize, Option<usize>) {
        if self.unbounded {
            (0, None)
        } else if self.lower_one {
            let n = self.inner.len();
            (n.min(1), Some(n))
        } else {
            self.inner.size_hint()
        }
    }
}

impl DependencyProvider for TableProvider {
    async fn filter_candidates(
        &self,
        candidates: &[SolvableId],
        version_set: VersionSetId,
        inverse: bool,
    ) -> Vec<SolvableId> {
        if self.log_all.get() {
            self.log
                .borrow_mut()
                .push(Call::Filter(version_set.0, inverse));
        }
        self.gate(ReqKind::Filter, version_set.0).await;
        let vs = self.vs(version_set);
        let mut out: Vec<SolvableId> = candidates
            .iter()
            .copied()
            .filter(|&c| self.u.vs_matches(vs, self.sref(c)) != inverse)
            .collect();
        if self.filter_reversed.get() {
            out.reverse();
        }
        out
    }

    async fn get_candidates(&self, name: NameId) -> Option<Candidates> {
        self.log.borrow_mut().push(Call::GetCandidates(name.0));
        self.gate(ReqKind::Candidates, name.0).await;
        let pi = *self
            .ix
            .name
            .get(&name.0)
            .unwrap_or_else(|| panic!("HARNESS: unknown name id {}", name.0));
        self.candidates_of(pi)
    }

    async fn sort_candidates(&self, solver: &SolverCache<Self>, solvables: &mut [SolvableId]) {
        if self.log_all.get() {
            self.log
                .borrow_mut()
                .push(Call::Sort(solvables.iter().map(|s| s.0).collect()));
        }
        if self.probe.get() == SortProbe::On {
            for &s in solvables.iter() {
                let avail = solver.are_dependencies_available_for(s);
                // expected at this very moment: hinted by its (necessarily fetched) package,
                // or its dependencies have been handed to the cache already
                let r = self.sref(s);
                let pk = &self.u.packages[r.pkg];
                let pkg_fetched = self
                    .log
                    .borrow()
                    .iter()
                    .any(|c| matches!(c, Call::GetCandidates(n) if *n == pk.name_id));
                let hinted = pkg_fetched && pk.hints(r.listed, r.idx);
                let fetched = self
                    .log
                    .borrow()
                    .iter()
                    .any(|c| matches!(c, Call::GetDependencies(x) if *x == s.0));
                self.probe_log.borrow_mut().push((s.0, avail, hinted || fetched));
            }
            if let Some(&first) = solvables.first() {
                // re-entrant cache queries, as rattler's conda provider does
                let name = self.solvable_name(first);
                let _ = solver.get_or_cache_candidates(name).await;
            }
        }
        if self.probe.get() == SortProbe::DepsAbandon {
            if let Some(&s0) = solvables.first() {
                if self.sref(s0).listed {
                    let mut fut = Box::pin(solver.get_or_cache_dependencies(s0));
                    let ready = futures::future::poll_fn(|cx| std::task::Poll::Ready(std::future::Future::poll(fut.as_mut(), cx).is_ready())).await;
                    if !ready && !self.abandoned_once.get() {
                        // the first such call gives up after a while: other callers (the sorts of
                        // sibling version sets, the solver itself) may be waiting for this very
                        // request by then
                        self.abandoned_once.set(true);
                        self.gate(ReqKind::Sort, s0.0).await;
                        drop(fut);
                    } else if !ready {
                        let _ = fut.await;
                    }
                }
            }
        }
        if matches!(self.probe.get(), SortProbe::Deps | SortProbe::DepsAbandon) {
            for &s in solvables.iter().take(2) {
                if !self.sref(s).listed {
                    continue;
                }
                if let Ok(Dependencies::Known(k)) = solver.get_or_cache_dependencies(s).await {
                    for req in k.requirements.iter().take(3) {
                        let sets: Vec<VersionSetId> = match *req {
                            Requirement::Single(v) => vec![v],
                            Requirement::Union(un) => self.version_sets_in_union(un).collect(),
                        };
                        for v in sets {
                            let name = self.version_set_name(v);
                            if self.probe.get() == SortProbe::DepsAbandon && !self.cands_abandoned_once.get() {
                                // the first nested candidates request that is not answered at
                                // once is given up after a while (other callers may be waiting
                                // for it by then) and made again
                                let mut fut = Box::pin(solver.get_or_cache_candidates(name));
                                let ready = futures::future::poll_fn(|cx| std::task::Poll::Ready(std::future::Future::poll(fut.as_mut(), cx).is_ready())).await;
                                if !ready {
                                    self.cands_abandoned_once.set(true);
                                    self.gate(ReqKind::Sort, s.0).await;
                                    drop(fut);
                                }
                            }
                            let _ = solver.get_or_cache_candidates(name).await;
                        }
                    }
                }
            }
        }
        if let Some(&first) = solvables.first() {
            self.gate(ReqKind::Sort, first.0).await;
        }
        let rank_of = |s: SolvableId| -> usize {
            let r = self.sref(s);
            let p = &self.u.packages[r.pkg];
            let _ = p;
            if r.listed {
                self.ix.rank_pos[r.pkg][r.idx]
            } else {
                usize::MAX
            }
        };
        if self.sort_ties.get() {
            solvables.sort_by_cached_key(|&s| rank_of(s) / 2);
        } else {
            solvables.sort_by_cached_key(|&s| rank_of(s));
        }
    }

    async fn get_dependencies(&self, solvable: SolvableId) -> Dependencies {
        self.log.borrow_mut().push(Call::GetDependencies(solvable.0));
        self.gate(ReqKind::Dependencies, solvable.0).await;
        self.dependencies_of(self.sref(solvable))
    }

    fn should_cancel_with_value(&self) -> Option<Box<dyn Any>> {
        let k = self.polls.get();
        self.polls.set(k + 1);
        let fire = match self.cancel.get() {
            Cancel::Never => false,
            Cancel::Transient(at) => k == at,
            Cancel::Sticky(at) => k >= at,
        };
        if fire {
            if self.freeze_on_cancel.get() {
                if let Some(s) = &self.sched {
                    s.frozen.set(true);
                }
            }
            let outstanding = self.sched.as_ref().map(|s| s.outstanding().len()).unwrap_or(0);
            self.log.borrow_mut().push(Call::Poll(k, outstanding));
            return Some(Box::new(k));
        }
        if k >= self.poll_budget.get() {
            return Some(Box::new(BUDGET_MARK));
        }
        None
    }
}

/// The answer of the table provider to `get_candidates` (shared with the C++ side of C17).
pub fn candidates_answer(u: &Universe, pkg: usize, dup_listing: bool) -> Option<Candidates> {
    let p = &u.packages[pkg];
    if p.missing {
        return None;
    }
    // a provider that lists a solvable twice (e.g. an installed prefix concatenated with a
    // channel): a third of the packages of a universe that has the flag repeat their first
    // candidate at the end of the list
    let dup = dup_listing && !p.cands.is_empty() && crate::runner::hash_of(&(&p.name, p.cands.len())) % 3 == 0;
    Some(Candidates {
        candidates: p
            .cands
            .iter()
            .map(|c| SolvableId(c.sid))
            .chain(p.cands.iter().take(if dup { 1 } else { 0 }).map(|c| SolvableId(c.sid)))
            .collect(),
        favored: p.favored.map(|i| SolvableId(p.cands[i].sid)),
        locked: if p.lock_gone {
            p.unlisted.last().map(|c| SolvableId(c.sid))
        } else {
            p.locked.map(|i| SolvableId(p.cands[i].sid))
        },
        hint_dependencies_available: match &p.hint {
            Hint::None => HintDependenciesAvailable::None,
            Hint::All => HintDependenciesAvailable::All,
            Hint::Some(v) => HintDependenciesAvailable::Some(
                v.iter()
                    .map(|&i| SolvableId(p.cands[i].sid))
                    .chain(p.unlisted.iter().filter(|_| p.hint_unlisted).map(|c| SolvableId(c.sid)))
                    .collect(),
            ),
        },
        // an exclusion may name a solvable the package does not list (any more)
        excluded: p
            .cands
            .iter()
            .chain(p.unlisted.iter())
            .filter_map(|c| {
                c.excluded
                    .map(|e| (SolvableId(c.sid), StringId(u.strings[e].id)))
            })
            .collect(),
    })
}


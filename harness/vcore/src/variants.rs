//! Semantics-preserving transformations of a case (C02's variant set): candidate
//! listing order, preference order, id numbering and hint patterns. None of these may
//! change whether a solution exists.

use crate::gen::{gen_ids, Params};
use crate::model::*;
use crate::tape::Tape;

/// Reorder the listed candidates of every package with a tape-driven permutation,
/// remapping every index that refers to them.
pub fn permute_listing(t: &mut Tape, u: &Universe, p: &Problem) -> (Universe, Problem) {
    let mut u2 = u.clone();
    let mut p2 = p.clone();
    for pi in 0..u2.packages.len() {
        let n = u2.packages[pi].cands.len();
        // perm[new] = old
        let perm = t.permutation(n);
        let mut old_to_new = vec![0usize; n];
        for (new, &old) in perm.iter().enumerate() {
            old_to_new[old] = new;
        }
        let pk = &mut u2.packages[pi];
        let old_cands = pk.cands.clone();
        pk.cands = perm.iter().map(|&o| old_cands[o].clone()).collect();
        pk.sort_rank = pk.sort_rank.iter().map(|&o| old_to_new[o]).collect();
        pk.favored = pk.favored.map(|o| old_to_new[o]);
        pk.locked = pk.locked.map(|o| old_to_new[o]);
        if let Hint::Some(v) = &mut pk.hint {
            for x in v.iter_mut() {
                *x = old_to_new[*x];
            }
        }
        for vs in u2.vsets.iter_mut().filter(|v| v.pkg == pi) {
            let mut m: Vec<usize> = vs.matches.iter().map(|&o| old_to_new[o]).collect();
            m.sort_unstable();
            vs.matches = m;
        }
        for s in p2.soft.iter_mut().filter(|s| s.pkg == pi && s.listed) {
            s.idx = old_to_new[s.idx];
        }
    }
    (u2, p2)
}

pub fn permute_rank(t: &mut Tape, u: &Universe) -> Universe {
    let mut u2 = u.clone();
    for pk in u2.packages.iter_mut() {
        pk.sort_rank = t.permutation(pk.cands.len());
        if !pk.cands.is_empty() && t.chance(1, 3) {
            pk.favored = Some(t.below(pk.cands.len()));
        }
    }
    u2
}

pub fn renumber(t: &mut Tape, u: &Universe, params: &Params) -> Universe {
    let mut u2 = u.clone();
    let mut p = params.clone();
    p.id_w = [0, 1, 3];
    gen_ids(t, &mut u2, &p);
    u2
}

#[derive(Clone, Copy, Debug, PartialEq, Eq)]
pub enum HintMode {
    None,
    All,
    Mixed,
}

pub fn set_hints(t: &mut Tape, u: &Universe, mode: HintMode) -> Universe {
    let mut u2 = u.clone();
    for pk in u2.packages.iter_mut() {
        pk.hint = match mode {
            HintMode::None => Hint::None,
            HintMode::All => Hint::All,
            HintMode::Mixed => match t.below(3) {
                0 => Hint::None,
                1 => Hint::All,
                _ => {
                    let mut v = vec![];
                    for i in 0..pk.cands.len() {
                        if t.chance(1, 2) {
                            v.push(i);
                        }
                    }
                    Hint::Some(v)
                }
            },
        };
    }
    u2
}

//! The universe model: plain, serialisable data that is the ground truth of
//! "what the provider says". Oracles read only this, never the solver.

use serde::{Deserialize, Serialize};
use std::collections::HashMap;

#[derive(Clone, Debug, Serialize, Deserialize, PartialEq, Eq, Hash)]
pub enum Req {
    Single(usize),
    Union(usize),
}

#[derive(Clone, Debug, Serialize, Deserialize, PartialEq, Eq, Hash)]
pub enum Deps {
    Known {
        reqs: Vec<Req>,
        constrains: Vec<usize>,
    },
    /// index into `Universe::strings`
    Unknown(usize),
}

impl Deps {
    pub fn empty() -> Deps {
        Deps::Known {
            reqs: vec![],
            constrains: vec![],
        }
    }
}

#[derive(Clone, Debug, Serialize, Deserialize, PartialEq, Eq, Hash)]
pub struct Cand {
    pub sid: u32,
    pub version: u32,
    pub deps: Deps,
    /// index into `Universe::strings`
    pub excluded: Option<usize>,
}

#[derive(Clone, Debug, Serialize, Deserialize, PartialEq, Eq, Hash)]
pub enum Hint {
    None,
    All,
    Some(Vec<usize>),
}

#[derive(Clone, Debug, Serialize, Deserialize, PartialEq, Eq, Hash)]
pub struct Package {
    pub name_id: u32,
    pub name: String,
    /// `get_candidates` returns `None`
    pub missing: bool,
    /// listed candidates, in listing order
    pub cands: Vec<Cand>,
    /// candidate indices in provider preference order (best first); a permutation of 0..cands.len()
    pub sort_rank: Vec<usize>,
    pub favored: Option<usize>,
    pub locked: Option<usize>,
    /// the provider reports a lock on a solvable it no longer offers: `Candidates::locked` is the
    /// last entry of `unlisted` (which must exist), `locked` is `None`. "The only solvable that
    /// can be selected" is then not a candidate, so no listed candidate may be installed.
    #[serde(default)]
    pub lock_gone: bool,
    /// a `Hint::Some` list additionally names every unlisted solvable of the package (a provider
    /// may know the dependencies of a solvable it does not offer as a candidate)
    #[serde(default)]
    pub hint_unlisted: bool,
    pub hint: Hint,
    /// solvables that belong to this package name but are not listed by get_candidates
    /// (only reachable as soft requirements; mirrors tests/solver.rs::test_solve_with_additional)
    pub unlisted: Vec<Cand>,
}

#[derive(Clone, Debug, Serialize, Deserialize, PartialEq, Eq, Hash)]
pub struct VSet {
    pub id: u32,
    pub pkg: usize,
    /// sorted candidate indices (into `Package::cands`) that match
    pub matches: Vec<usize>,
}

#[derive(Clone, Debug, Serialize, Deserialize, PartialEq, Eq, Hash)]
pub struct Union {
    pub id: u32,
    pub members: Vec<usize>,
}

#[derive(Clone, Debug, Serialize, Deserialize, PartialEq, Eq, Hash)]
pub struct Str {
    pub id: u32,
    pub text: String,
}

#[derive(Clone, Debug, Serialize, Deserialize, PartialEq, Eq, Hash, Default)]
pub struct Universe {
    pub packages: Vec<Package>,
    pub vsets: Vec<VSet>,
    pub unions: Vec<Union>,
    pub strings: Vec<Str>,
}

/// A reference to a solvable of the universe.
#[derive(Clone, Copy, Debug, Serialize, Deserialize, PartialEq, Eq, Hash, PartialOrd, Ord)]
pub struct SRef {
    pub pkg: usize,
    pub idx: usize,
    pub listed: bool,
}

#[derive(Clone, Debug, Serialize, Deserialize, PartialEq, Eq, Hash, Default)]
pub struct Problem {
    pub reqs: Vec<Req>,
    pub constraints: Vec<usize>,
    pub soft: Vec<SRef>,
}

impl Package {
    /// Is the listed candidate `idx` ruled out by the package's lock?
    pub fn locked_out(&self, idx: usize) -> bool {
        self.lock_gone || self.locked.is_some_and(|l| l != idx)
    }

    /// Does the package's answer to `get_candidates` declare the dependencies of this solvable
    /// available? (`All` speaks about the listed candidates only.)
    pub fn hints(&self, listed: bool, idx: usize) -> bool {
        match &self.hint {
            Hint::None => false,
            Hint::All => listed,
            Hint::Some(v) => {
                if listed {
                    v.contains(&idx)
                } else {
                    self.hint_unlisted
                }
            }
        }
    }

    pub fn has_lock(&self) -> bool {
        self.lock_gone || self.locked.is_some()
    }
}

impl Universe {
    pub fn cand(&self, s: SRef) -> &Cand {
        if s.listed {
            &self.packages[s.pkg].cands[s.idx]
        } else {
            &self.packages[s.pkg].unlisted[s.idx]
        }
    }

    pub fn n_solvables(&self) -> usize {
        self.packages
            .iter()
            .map(|p| p.cands.len() + p.unlisted.len())
            .sum()
    }

    pub fn vs_matches(&self, vs: usize, s: SRef) -> bool {
        let v = &self.vsets[vs];
        s.listed && v.pkg == s.pkg && v.matches.binary_search(&s.idx).is_ok()
    }

    /// version set indices of a requirement, in union order
    pub fn req_vsets(&self, r: &Req) -> Vec<usize> {
        match r {
            Req::Single(v) => vec![*v],
            Req::Union(u) => self.unions[*u].members.clone(),
        }
    }

    /// candidates of a single version set in *listing* order
    pub fn vs_cands(&self, vs: usize) -> Vec<SRef> {
        let v = &self.vsets[vs];
        let p = &self.packages[v.pkg];
        if p.missing {
            return vec![];
        }
        (0..p.cands.len())
            .filter(|i| v.matches.binary_search(i).is_ok())
            .map(|idx| SRef {
                pkg: v.pkg,
                idx,
                listed: true,
            })
            .collect()
    }

    /// non-matching listed candidates of the version set's package, listing order
    pub fn vs_non_cands(&self, vs: usize) -> Vec<SRef> {
        let v = &self.vsets[vs];
        let p = &self.packages[v.pkg];
        if p.missing {
            return vec![];
        }
        (0..p.cands.len())
            .filter(|i| v.matches.binary_search(i).is_err())
            .map(|idx| SRef {
                pkg: v.pkg,
                idx,
                listed: true,
            })
            .collect()
    }

    /// candidates of a version set in the order the solver is documented to try them:
    /// provider sort order, favored candidate rotated to the front.
    pub fn vs_ranked(&self, vs: usize) -> Vec<SRef> {
        let v = &self.vsets[vs];
        let p = &self.packages[v.pkg];
        if p.missing {
            return vec![];
        }
        let mut out: Vec<usize> = p
            .sort_rank
            .iter()
            .copied()
            .filter(|i| v.matches.binary_search(i).is_ok())
            .collect();
        if let Some(f) = p.favored {
            if let Some(pos) = out.iter().position(|&c| c == f) {
                out[0..=pos].rotate_right(1);
            }
        }
        out.into_iter()
            .map(|idx| SRef {
                pkg: v.pkg,
                idx,
                listed: true,
            })
            .collect()
    }

    /// All candidates of a requirement (union members in order), listing order within a member.
    pub fn req_cands(&self, r: &Req) -> Vec<SRef> {
        self.req_vsets(r)
            .into_iter()
            .flat_map(|vs| self.vs_cands(vs))
            .collect()
    }

    pub fn req_ranked(&self, r: &Req) -> Vec<SRef> {
        self.req_vsets(r)
            .into_iter()
            .flat_map(|vs| self.vs_ranked(vs))
            .collect()
    }

    pub fn display_solvable(&self, s: SRef) -> String {
        format!("{}={}", self.packages[s.pkg].name, self.cand(s).version)
    }

    pub fn display_vs(&self, vs: usize) -> String {
        let v = &self.vsets[vs];
        let p = &self.packages[v.pkg];
        // Sets with very many members (huge-package stages) are abbreviated: resolvo formats
        // version sets in its debug events, and a display that is linear in the package size
        // turns one solve into minutes of string building. The text stays a pure function of
        // the table and unique through the id.
        const SHOWN: usize = 12;
        let extra = v.matches.len().saturating_sub(SHOWN);
        let mut items: Vec<String> = v
            .matches
            .iter()
            .take(SHOWN)
            .map(|&i| {
                p.cands
                    .get(i)
                    .map(|c| c.version.to_string())
                    .unwrap_or_else(|| format!("?{i}"))
            })
            .collect();
        if extra > 0 {
            items.push(format!("..+{extra}"));
        }
        format!("{{{}}}#{}", items.join(","), v.id)
    }

    pub fn display_req(&self, r: &Req) -> String {
        self.req_vsets(r)
            .iter()
            .map(|&vs| format!("{} {}", self.packages[self.vsets[vs].pkg].name, self.display_vs(vs)))
            .collect::<Vec<_>>()
            .join(" | ")
    }

    /// Compact one-line-per-solvable text form, used for evidence samples.
    pub fn describe(&self, problem: &Problem) -> String {
        let mut out = String::new();
        for p in &self.packages {
            out.push_str(&format!(
                "pkg {}(n{}){}{}{} hint={}\n",
                p.name,
                p.name_id,
                if p.missing { " MISSING" } else { "" },
                p.favored
                    .map(|f| format!(" fav={}", p.cands[f].version))
                    .unwrap_or_default(),
                if p.lock_gone {
                    format!(" lock=GONE({})", p.unlisted.last().map(|c| c.version).unwrap_or(0))
                } else {
                    p.locked
                        .map(|f| format!(" lock={}", p.cands[f].version))
                        .unwrap_or_default()
                },
                match &p.hint {
                    Hint::None => "none".to_string(),
                    Hint::All => "all".to_string(),
                    Hint::Some(v) => format!(
                        "{:?}",
                        v.iter().map(|&i| p.cands[i].version).collect::<Vec<_>>()
                    ),
                }
            ));
            out.push_str(&format!(
                "  order: {:?}\n",
                p.sort_rank
                    .iter()
                    .map(|&i| p.cands[i].version)
                    .collect::<Vec<_>>()
            ));
            for (listed, list) in [(true, &p.cands), (false, &p.unlisted)] {
                for c in list {
                    out.push_str(&format!(
                        "  {}={} (s{}){}{}: ",
                        p.name,
                        c.version,
                        c.sid,
                        if listed { "" } else { " UNLISTED" },
                        c.excluded
                            .map(|e| format!(" EXCLUDED[{}]", self.strings[e].text))
                            .unwrap_or_default()
                    ));
                    match &c.deps {
                        Deps::Unknown(s) => {
                            out.push_str(&format!("UNKNOWN[{}]", self.strings[*s].text))
                        }
                        Deps::Known { reqs, constrains } => {
                            let r: Vec<String> = reqs.iter().map(|r| self.display_req(r)).collect();
                            let c: Vec<String> = constrains
                                .iter()
                                .map(|&vs| {
                                    format!(
                                        "{} {}",
                                        self.packages[self.vsets[vs].pkg].name,
                                        self.display_vs(vs)
                                    )
                                })
                                .collect();
                            out.push_str(&format!(
                                "requires [{}] constrains [{}]",
                                r.join("; "),
                                c.join("; ")
                            ));
                        }
                    }
                    out.push('\n');
                }
            }
        }
        out.push_str(&format!(
            "PROBLEM requires [{}] constraints [{}] soft [{}]\n",
            problem
                .reqs
                .iter()
                .map(|r| self.display_req(r))
                .collect::<Vec<_>>()
                .join("; "),
            problem
                .constraints
                .iter()
                .map(|&vs| format!(
                    "{} {}",
                    self.packages[self.vsets[vs].pkg].name,
                    self.display_vs(vs)
                ))
                .collect::<Vec<_>>()
                .join("; "),
            problem
                .soft
                .iter()
                .map(|&s| self.display_solvable(s))
                .collect::<Vec<_>>()
                .join(", ")
        ));
        out
    }
}

/// Fast lookup tables from resolvo ids back to model indices.
#[derive(Default, Debug, Clone)]
pub struct Index {
    pub name: HashMap<u32, usize>,
    pub solvable: HashMap<u32, SRef>,
    pub vset: HashMap<u32, usize>,
    pub union: HashMap<u32, usize>,
    pub string: HashMap<u32, usize>,
    /// per package: candidate index -> position in the provider's sort order
    pub rank_pos: Vec<Vec<usize>>,
}

impl Index {
    pub fn new(u: &Universe) -> Self {
        let mut ix = Index::default();
        for (pi, p) in u.packages.iter().enumerate() {
            assert!(ix.name.insert(p.name_id, pi).is_none(), "duplicate name id");
            for (ci, c) in p.cands.iter().enumerate() {
                assert!(
                    ix.solvable
                        .insert(
                            c.sid,
                            SRef {
                                pkg: pi,
                                idx: ci,
                                listed: true
                            }
                        )
                        .is_none(),
                    "duplicate solvable id"
                );
            }
            for (ci, c) in p.unlisted.iter().enumerate() {
                assert!(
                    ix.solvable
                        .insert(
                            c.sid,
                            SRef {
                                pkg: pi,
                                idx: ci,
                                listed: false
                            }
                        )
                        .is_none(),
                    "duplicate solvable id"
                );
            }
        }
        for p in &u.packages {
            let mut pos = vec![usize::MAX; p.cands.len()];
            for (k, &i) in p.sort_rank.iter().enumerate() {
                if i < pos.len() {
                    pos[i] = k;
                }
            }
            ix.rank_pos.push(pos);
        }
        for (i, v) in u.vsets.iter().enumerate() {
            assert!(ix.vset.insert(v.id, i).is_none(), "duplicate vset id");
        }
        for (i, v) in u.unions.iter().enumerate() {
            assert!(ix.union.insert(v.id, i).is_none(), "duplicate union id");
        }
        for (i, v) in u.strings.iter().enumerate() {
            assert!(ix.string.insert(v.id, i).is_none(), "duplicate string id");
        }
        ix
    }
}

/// Structural well-formedness of a universe + problem (generator self-check and
/// replay-file validation). Returns a description of the first violation.
pub fn check_well_formed(u: &Universe, p: &Problem) -> Result<(), String> {
    let np = u.packages.len();
    for (pi, pk) in u.packages.iter().enumerate() {
        let n = pk.cands.len();
        let mut seen = vec![false; n];
        if pk.sort_rank.len() != n {
            return Err(format!("pkg {pi}: sort_rank length"));
        }
        for &r in &pk.sort_rank {
            if r >= n || seen[r] {
                return Err(format!("pkg {pi}: sort_rank not a permutation"));
            }
            seen[r] = true;
        }
        for o in [pk.favored, pk.locked].into_iter().flatten() {
            if o >= n {
                return Err(format!("pkg {pi}: favored/locked out of range"));
            }
        }
        if pk.lock_gone && (pk.locked.is_some() || pk.unlisted.is_empty() || pk.missing) {
            return Err(format!("pkg {pi}: lock_gone needs an unlisted solvable, no listed lock and a known package"));
        }
        if let Hint::Some(v) = &pk.hint {
            if v.iter().any(|&i| i >= n) {
                return Err(format!("pkg {pi}: hint out of range"));
            }
        }
        for c in pk.cands.iter().chain(pk.unlisted.iter()) {
            if let Some(e) = c.excluded {
                if e >= u.strings.len() {
                    return Err("excluded string idx".into());
                }
            }
            match &c.deps {
                Deps::Unknown(s) => {
                    if *s >= u.strings.len() {
                        return Err("unknown string idx".into());
                    }
                }
                Deps::Known { reqs, constrains } => {
                    for r in reqs {
                        match r {
                            Req::Single(v) if *v >= u.vsets.len() => return Err("req vs idx".into()),
                            Req::Union(v) if *v >= u.unions.len() => {
                                return Err("req union idx".into())
                            }
                            _ => {}
                        }
                    }
                    if constrains.iter().any(|&v| v >= u.vsets.len()) {
                        return Err("constrains vs idx".into());
                    }
                }
            }
        }
    }
    for v in &u.vsets {
        if v.pkg >= np {
            return Err("vset pkg".into());
        }
        let n = u.packages[v.pkg].cands.len();
        if v.matches.iter().any(|&i| i >= n) {
            return Err("vset match idx".into());
        }
        if v.matches.windows(2).any(|w| w[0] >= w[1]) {
            return Err("vset matches not sorted/unique".into());
        }
    }
    for un in &u.unions {
        if un.members.is_empty() || un.members.iter().any(|&m| m >= u.vsets.len()) {
            return Err("union members".into());
        }
    }
    for r in &p.reqs {
        match r {
            Req::Single(v) if *v >= u.vsets.len() => return Err("problem req".into()),
            Req::Union(v) if *v >= u.unions.len() => return Err("problem req union".into()),
            _ => {}
        }
    }
    if p.constraints.iter().any(|&v| v >= u.vsets.len()) {
        return Err("problem constraint".into());
    }
    for s in &p.soft {
        if s.pkg >= np {
            return Err("soft pkg".into());
        }
        let len = if s.listed {
            u.packages[s.pkg].cands.len()
        } else {
            u.packages[s.pkg].unlisted.len()
        };
        if s.idx >= len {
            return Err("soft idx".into());
        }
    }
    // id uniqueness asserted by Index::new
    let _ = Index::new(u);
    Ok(())
}

//! Independent reference semantics: validity predicate, exact existence search,
//! support closure and first-choice closure. Shares no code with resolvo.

use crate::model::*;
use std::collections::{BTreeSet, HashSet};

/// Intrinsic installability of a solvable as a *non-soft* member of a solution.
pub fn intrinsically_ok(u: &Universe, s: SRef) -> Result<(), &'static str> {
    let c = u.cand(s);
    if matches!(c.deps, Deps::Unknown(_)) {
        return Err("unknown-deps");
    }
    if !s.listed {
        return Err("unlisted");
    }
    if c.excluded.is_some() {
        return Err("excluded");
    }
    if u.packages[s.pkg].locked_out(s.idx) {
        return Err("locked-out");
    }
    Ok(())
}

#[derive(Debug, Clone, PartialEq, Eq)]
pub struct Invalid {
    /// short stable name of the violated clause of the predicate
    pub clause: &'static str,
    pub detail: String,
}

/// The C01 predicate. `soft` lists the solvables that enjoy the documented exemption from
/// their own package's lock/exclusion list.
pub fn valid(u: &Universe, p: &Problem, sol: &[SRef], soft: &[SRef]) -> Result<(), Invalid> {
    let set: HashSet<SRef> = sol.iter().copied().collect();
    if set.len() != sol.len() {
        return Err(Invalid {
            clause: "duplicate-id",
            detail: format!("{sol:?}"),
        });
    }
    // one per package
    let mut per_pkg: Vec<Vec<SRef>> = vec![vec![]; u.packages.len()];
    for &s in sol {
        per_pkg[s.pkg].push(s);
    }
    for (pi, v) in per_pkg.iter().enumerate() {
        if v.len() > 1 {
            let any_soft = v.iter().any(|s| soft.contains(s));
            return Err(Invalid {
                clause: if any_soft {
                    "two-per-package-soft"
                } else {
                    "two-per-package"
                },
                detail: format!(
                    "package {}: {:?}",
                    u.packages[pi].name,
                    v.iter().map(|&s| u.display_solvable(s)).collect::<Vec<_>>()
                ),
            });
        }
    }
    let req_met = |r: &Req| -> bool { u.req_cands(r).iter().any(|c| set.contains(c)) };
    let constraint_ok = |vs: usize| -> Option<SRef> {
        let pkg = u.vsets[vs].pkg;
        // constrains only speak about candidates listed by get_candidates
        per_pkg[pkg]
            .iter()
            .copied()
            .find(|&t| t.listed && !u.vs_matches(vs, t))
    };
    for r in &p.reqs {
        if !req_met(r) {
            return Err(Invalid {
                clause: "root-requirement-unmet",
                detail: u.display_req(r),
            });
        }
    }
    for &vs in &p.constraints {
        if let Some(t) = constraint_ok(vs) {
            return Err(Invalid {
                clause: "root-constraint-violated",
                detail: format!("{} vs {}", u.display_vs(vs), u.display_solvable(t)),
            });
        }
    }
    for &s in sol {
        let c = u.cand(s);
        match &c.deps {
            Deps::Unknown(_) => {
                return Err(Invalid {
                    clause: "unknown-deps-selected",
                    detail: u.display_solvable(s),
                })
            }
            Deps::Known { reqs, constrains } => {
                for r in reqs {
                    if !req_met(r) {
                        return Err(Invalid {
                            clause: "requirement-unmet",
                            detail: format!("{} requires {}", u.display_solvable(s), u.display_req(r)),
                        });
                    }
                }
                for &vs in constrains {
                    if let Some(t) = constraint_ok(vs) {
                        return Err(Invalid {
                            clause: "constrains-violated",
                            detail: format!(
                                "{} constrains {} but {} selected",
                                u.display_solvable(s),
                                u.display_vs(vs),
                                u.display_solvable(t)
                            ),
                        });
                    }
                }
            }
        }
        if !soft.contains(&s) {
            if !s.listed {
                return Err(Invalid {
                    clause: "unlisted-selected",
                    detail: u.display_solvable(s),
                });
            }
            if c.excluded.is_some() {
                return Err(Invalid {
                    clause: "excluded-selected",
                    detail: u.display_solvable(s),
                });
            }
            if u.packages[s.pkg].locked_out(s.idx) {
                return Err(Invalid {
                    clause: "locked-out-selected",
                    detail: u.display_solvable(s),
                });
            }
        }
    }
    Ok(())
}

#[derive(Debug, Clone, PartialEq, Eq)]
pub enum Exists {
    Yes(Vec<SRef>),
    No,
    /// node budget exhausted: no verdict
    Budget,
}

struct Search<'a> {
    u: &'a Universe,
    chosen: Vec<Option<usize>>,
    agenda: Vec<Req>,
    constraints: Vec<usize>,
    nodes: u64,
    budget: u64,
    over: bool,
}

impl Search<'_> {
    fn satisfied(&self, r: &Req) -> bool {
        self.u
            .req_cands(r)
            .iter()
            .any(|c| self.chosen[c.pkg] == Some(c.idx))
    }

    fn can_add(&self, c: SRef) -> bool {
        if self.chosen[c.pkg].is_some() {
            return false;
        }
        if intrinsically_ok(self.u, c).is_err() {
            return false;
        }
        for &vs in &self.constraints {
            if self.u.vsets[vs].pkg == c.pkg && !self.u.vs_matches(vs, c) {
                return false;
            }
        }
        if let Deps::Known { constrains, .. } = &self.u.cand(c).deps {
            for &vs in constrains {
                let pkg = self.u.vsets[vs].pkg;
                let t = if pkg == c.pkg {
                    Some(c.idx)
                } else {
                    self.chosen[pkg]
                };
                if let Some(t) = t {
                    if self.u.vsets[vs].matches.binary_search(&t).is_err() {
                        return false;
                    }
                }
            }
        }
        true
    }

    fn add(&mut self, c: SRef) -> (usize, usize) {
        let saved = (self.agenda.len(), self.constraints.len());
        self.chosen[c.pkg] = Some(c.idx);
        if let Deps::Known { reqs, constrains } = &self.u.cand(c).deps {
            self.agenda.extend(reqs.iter().cloned());
            self.constraints.extend(constrains.iter().copied());
        }
        saved
    }

    fn undo(&mut self, c: SRef, saved: (usize, usize)) {
        self.chosen[c.pkg] = None;
        self.agenda.truncate(saved.0);
        self.constraints.truncate(saved.1);
    }

    fn search(&mut self, mut pos: usize) -> bool {
        self.nodes += 1;
        if self.nodes > self.budget {
            self.over = true;
            return false;
        }
        while pos < self.agenda.len() {
            let r = self.agenda[pos].clone();
            if self.satisfied(&r) {
                pos += 1;
                continue;
            }
            for c in self.u.req_cands(&r) {
                if !self.can_add(c) {
                    continue;
                }
                let saved = self.add(c);
                if self.search(pos + 1) {
                    return true;
                }
                self.undo(c, saved);
                if self.over {
                    return false;
                }
            }
            return false;
        }
        true
    }
}

/// Does a valid selection (hard requirements only) exist that contains `must_include`?
pub fn exists_solution(u: &Universe, p: &Problem, must_include: &[SRef], budget: u64) -> Exists {
    let mut s = Search {
        u,
        chosen: vec![None; u.packages.len()],
        agenda: p.reqs.clone(),
        constraints: p.constraints.clone(),
        nodes: 0,
        budget,
        over: false,
    };
    for &f in must_include {
        if s.chosen[f.pkg] == Some(f.idx) && f.listed {
            continue;
        }
        if !s.can_add(f) {
            return Exists::No;
        }
        s.add(f);
    }
    if s.search(0) {
        let sol: Vec<SRef> = s
            .chosen
            .iter()
            .enumerate()
            .filter_map(|(pkg, c)| {
                c.map(|idx| SRef {
                    pkg,
                    idx,
                    listed: true,
                })
            })
            .collect();
        Exists::Yes(sol)
    } else if s.over {
        Exists::Budget
    } else {
        Exists::No
    }
}

/// C05: the support closure of a solution: everything reachable from the root requirements
/// (and from `seeds`, the accepted soft solvables) through requirement edges whose satisfying
/// candidate is itself in the solution.
pub fn reach(u: &Universe, p: &Problem, sol: &[SRef], seeds: &[SRef]) -> BTreeSet<SRef> {
    let set: HashSet<SRef> = sol.iter().copied().collect();
    let mut reached: BTreeSet<SRef> = BTreeSet::new();
    let mut work: Vec<SRef> = vec![];
    let visit_req = |r: &Req, reached: &mut BTreeSet<SRef>, work: &mut Vec<SRef>| {
        for c in u.req_cands(r) {
            if set.contains(&c) && reached.insert(c) {
                work.push(c);
            }
        }
    };
    for r in &p.reqs {
        visit_req(r, &mut reached, &mut work);
    }
    for &s in seeds {
        if set.contains(&s) && reached.insert(s) {
            work.push(s);
        }
    }
    while let Some(s) = work.pop() {
        if let Deps::Known { reqs, .. } = &u.cand(s).deps {
            for r in reqs {
                visit_req(r, &mut reached, &mut work);
            }
        }
    }
    reached
}

/// C07: the greedy first-choice closure and its side conditions.
/// Returns `Some(G)` iff choosing `first(req)` for every requirement reachable from `start`
/// gives a selection that is valid and in which each requirement is met *only* by its own
/// first choice.
pub fn first_choice_closure(u: &Universe, p: &Problem) -> Option<BTreeSet<SRef>> {
    first_choice_closure_seeded(u, p, &[])
}

/// The same with additional directly requested solvables (`seeds`, e.g. accepted soft
/// requirements): the closure starts from the root requirements and the seeds; the result
/// (including the seeds) must be valid and every requirement must be met only by its own
/// first choice.
pub fn first_choice_closure_seeded(u: &Universe, p: &Problem, seeds: &[SRef]) -> Option<BTreeSet<SRef>> {
    let mut g: BTreeSet<SRef> = BTreeSet::new();
    let mut all_reqs: Vec<Req> = p.reqs.clone();
    for &s in seeds {
        if g.insert(s) {
            match &u.cand(s).deps {
                Deps::Unknown(_) => return None,
                Deps::Known { reqs, .. } => all_reqs.extend(reqs.iter().cloned()),
            }
        }
    }
    let mut i = 0;
    while i < all_reqs.len() {
        let r = all_reqs[i].clone();
        i += 1;
        let f = *u.req_ranked(&r).first()?;
        if g.insert(f) {
            match &u.cand(f).deps {
                Deps::Unknown(_) => return None,
                Deps::Known { reqs, .. } => all_reqs.extend(reqs.iter().cloned()),
            }
        }
        if all_reqs.len() > 10_000 {
            return None;
        }
    }
    let sol: Vec<SRef> = g.iter().copied().collect();
    if valid(u, p, &sol, &[]).is_err() {
        return None;
    }
    for r in &all_reqs {
        let first = *u.req_ranked(r).first()?;
        for c in u.req_cands(r) {
            if g.contains(&c) && c != first {
                return None;
            }
        }
    }
    Some(g)
}

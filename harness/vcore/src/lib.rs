//! Verification core for mamba-org/resolvo: model, generators, providers, reference
//! resolver, oracles, scheduler, runner and evidence.
pub mod gen;
pub mod golden;
pub mod minimize;
pub mod model;
pub mod oracle;
pub mod props;
pub mod provider;
pub mod reference;
pub mod run;
pub mod runner;
pub mod sched;
pub mod tape;
pub mod variants;

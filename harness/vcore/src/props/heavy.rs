//! C14, stage `expensive-soft`: soft requirements that cost the solver hundreds or thousands
//! of conflicts before they are accepted or given up, followed (or preceded) by soft
//! requirements that cost nothing. Random universes of a dozen packages never need more than
//! a handful of conflicts per soft requirement, so anything that accumulates over the soft
//! list of one solve - budgets, counters, learnt-clause bookkeeping - is out of their reach.
//!
//! The universe is constructed: a trivial hard part; `gadgets` pigeonhole problems, each behind
//! one soft solvable (`n+1` pigeon packages with `n` hole versions each, every pigeon version
//! constrains the other pigeons away from its hole: unsatisfiable, or with `n` pigeons
//! satisfiable only by a permutation); and `victims`: soft solvables with one dependency that has
//! two candidates and that nothing else mentions.

use crate::model::*;
use crate::props::common::abnormal;
use crate::provider::Cancel;
use crate::reference::valid;
use crate::run::*;
use crate::runner::{hash_of, CaseReport, Failure, Property};
use crate::tape::Tape;
use std::rc::Rc;

pub struct C14Heavy {
    pub stage: &'static str,
    pub max_holes: usize,
}

#[derive(Clone, Debug, Hash)]
pub struct HeavyCase {
    /// (holes, pigeons) per gadget
    pub gadgets: Vec<(usize, usize)>,
    pub victims: usize,
    /// order of the soft list: indices into gadgets ++ victims
    pub order: Vec<usize>,
    pub hints: bool,
}

impl C14Heavy {
    pub fn decode(&self, tape: &[u16]) -> HeavyCase {
        let mut t = Tape::new(tape);
        let ng = 1 + t.below(3);
        let gadgets: Vec<(usize, usize)> = (0..ng)
            .map(|_| {
                let holes = 3 + t.below(self.max_holes.saturating_sub(2).max(1));
                // mostly one pigeon too many (no solution), sometimes exactly enough
                let pigeons = if t.chance(1, 4) { holes } else { holes + 1 };
                (holes, pigeons)
            })
            .collect();
        let victims = 1 + t.below(4);
        let order = t.permutation(ng + victims);
        let hints = t.chance(1, 4);
        HeavyCase { gadgets, victims, order, hints }
    }

    pub fn build(&self, hc: &HeavyCase) -> (Universe, Problem, Vec<SRef>, Vec<SRef>) {
        let mut u = Universe::default();
        u.strings.push(Str { id: 0, text: "reason".into() });
        let hint = if hc.hints { Hint::All } else { Hint::None };
        let mut add_pkg = |u: &mut Universe, name: String, ncand: usize| -> usize {
            u.packages.push(Package {
                name_id: 0,
                name,
                missing: false,
                cands: (0..ncand)
                    .map(|c| Cand { sid: 0, version: (c + 1) as u32, deps: Deps::empty(), excluded: None })
                    .collect(),
                sort_rank: (0..ncand).collect(),
                favored: None,
                locked: None,
                lock_gone: false,
                hint_unlisted: false,
                hint: hint.clone(),
                unlisted: vec![],
            });
            u.packages.len() - 1
        };
        let vs = |u: &mut Universe, pkg: usize, matches: Vec<usize>| -> usize {
            u.vsets.push(VSet { id: 0, pkg, matches });
            u.vsets.len() - 1
        };
        let base = add_pkg(&mut u, "base".into(), 1);
        let base_any = vs(&mut u, base, vec![0]);
        let mut gadget_soft = vec![];
        for (g, &(holes, pigeons)) in hc.gadgets.iter().enumerate() {
            let head = add_pkg(&mut u, format!("bs{g}"), 1);
            let ps: Vec<usize> = (0..pigeons).map(|i| add_pkg(&mut u, format!("g{g}p{i}"), holes)).collect();
            let mut reqs = vec![];
            for &p in &ps {
                reqs.push(Req::Single(vs(&mut u, p, (0..holes).collect())));
            }
            u.packages[head].cands[0].deps = Deps::Known { reqs, constrains: vec![] };
            // "not hole h" of every pigeon
            let not_hole: Vec<Vec<usize>> = ps
                .iter()
                .map(|&p| (0..holes).map(|h| vs(&mut u, p, (0..holes).filter(|&x| x != h).collect())).collect())
                .collect();
            for (i, &p) in ps.iter().enumerate() {
                for h in 0..holes {
                    let constrains: Vec<usize> = (0..pigeons).filter(|&j| j != i).map(|j| not_hole[j][h]).collect();
                    u.packages[p].cands[h].deps = Deps::Known { reqs: vec![], constrains };
                }
            }
            gadget_soft.push(SRef { pkg: head, idx: 0, listed: true });
        }
        let mut victim_soft = vec![];
        for v in 0..hc.victims {
            let t = add_pkg(&mut u, format!("t{v}"), 1);
            let w = add_pkg(&mut u, format!("w{v}"), 2);
            let any = vs(&mut u, w, vec![0, 1]);
            u.packages[t].cands[0].deps = Deps::Known { reqs: vec![Req::Single(any)], constrains: vec![] };
            victim_soft.push(SRef { pkg: t, idx: 0, listed: true });
        }
        let mut sid = 0u32;
        for (i, p) in u.packages.iter_mut().enumerate() {
            p.name_id = i as u32;
            for c in p.cands.iter_mut() {
                c.sid = sid;
                sid += 1;
            }
        }
        for (i, v) in u.vsets.iter_mut().enumerate() {
            v.id = i as u32;
        }
        let all: Vec<SRef> = gadget_soft.iter().chain(victim_soft.iter()).copied().collect();
        let soft: Vec<SRef> = hc.order.iter().map(|&i| all[i]).collect();
        let problem = Problem { reqs: vec![Req::Single(base_any)], constraints: vec![], soft };
        (u, problem, gadget_soft, victim_soft)
    }
}

impl Property for C14Heavy {
    fn id(&self) -> &'static str {
        "C14"
    }
    fn stage(&self) -> &'static str {
        self.stage
    }
    fn max_tape(&self) -> usize {
        24
    }
    fn shrink_budget(&self) -> usize {
        300
    }
    fn hang_secs(&self) -> u64 {
        900
    }
    fn rule(&self) -> String {
        "tape -> constructed universe: trivial hard problem + 1..3 soft solvables that each stand for a pigeonhole problem (n+1, sometimes n, pigeon packages with n = 3..max hole versions; each pigeon version constrains the other pigeons away from its hole) + 1..4 soft solvables with one two-candidate dependency that nothing else mentions, the soft list in generated order, with and without hints. Oracle: solve returns a solution (the hard problem is solvable), it passes the C01 predicate with the soft exemption, a pigeonhole soft solvable with one pigeon too many is not in it, and every cheap soft solvable is in it together with its first-ranked dependency (its first-choice closure is disjoint from everything else). Non-trivial: >= 100 clauses were learnt during the solve. Distinct = distinct case.".into()
    }
    fn describe(&self, tape: &[u16]) -> String {
        format!("{:?}\n", self.decode(tape))
    }
    fn eval(&self, tape: &[u16]) -> CaseReport {
        let hc = self.decode(tape);
        let mut rep = CaseReport { evaluations: 1, case_hash: hash_of(&hc), ..Default::default() };
        let (u, problem, gadget_soft, victim_soft) = self.build(&hc);
        let u = Rc::new(u);
        let mut session = Session::new(u.clone(), &Runtime::Sync, None);
        // pigeonhole refutations are exponential: the step budget follows the gadget sizes
        let work: u64 = hc.gadgets.iter().map(|&(h, _)| (1..=h as u64).product::<u64>()).sum();
        session.provider().poll_budget.set(200_000 + 400 * work);
        let res = session.solve(&problem, Cancel::Never, true, false);
        rep.labels.push(res.outcome.kind());
        if res.labels.learnt >= 100 {
            rep.labels.push("learnt>=100");
        }
        if res.labels.learnt >= 1000 {
            rep.labels.push("learnt>=1000");
        }
        if res.labels.learnt >= 4000 {
            rep.labels.push("learnt>=4000");
        }
        rep.nontrivial = res.labels.learnt >= 100;
        if let Some(f) = abnormal(&res.outcome, Cancel::Never) {
            rep.failure = Some(f);
            return rep;
        }
        let Outcome::Sat(sol) = &res.outcome else {
            rep.failure = Some(Failure {
                signature: "C14:soft-requirements-caused-unsolvable".into(),
                detail: format!("the hard problem (root requires base) is solvable; with the soft list solve returned {}", res.outcome.kind()),
            });
            return rep;
        };
        let ix = Index::new(&u);
        let Ok(refs) = solution_refs(&ix, sol) else {
            rep.failure = Some(Failure { signature: "C01:unknown-id".into(), detail: "unknown id".into() });
            return rep;
        };
        if let Err(inv) = valid(&u, &problem, &refs, &problem.soft) {
            rep.failure = Some(Failure { signature: format!("C01:{}", inv.clause), detail: format!("{}: {}", inv.clause, inv.detail) });
            return rep;
        }
        for (g, s) in gadget_soft.iter().enumerate() {
            let (holes, pigeons) = hc.gadgets[g];
            if pigeons > holes && refs.contains(s) {
                rep.failure = Some(Failure {
                    signature: "C14:uninstallable-soft-requirement-accepted".into(),
                    detail: format!("{} needs {pigeons} pigeons in {holes} holes and is part of the solution", u.display_solvable(*s)),
                });
                return rep;
            }
            if refs.contains(s) {
                rep.labels.push("expensive-soft-accepted");
            }
        }
        for s in &victim_soft {
            let w_first = SRef { pkg: s.pkg + 1, idx: 0, listed: true };
            if !refs.contains(s) || !refs.contains(&w_first) {
                rep.failure = Some(Failure {
                    signature: "C14:compatible-soft-requirement-dropped".into(),
                    detail: format!(
                        "{} requires only {} (two candidates, mentioned by nothing else): its first-choice closure is compatible with everything, yet the solution is {:?} (clauses learnt during the solve: {})",
                        u.display_solvable(*s),
                        u.packages[s.pkg + 1].name,
                        refs.iter().map(|&x| u.display_solvable(x)).collect::<Vec<_>>(),
                        res.labels.learnt
                    ),
                });
                return rep;
            }
        }
        rep
    }
}

//! Helpers shared by the solve-based properties.

use crate::gen::*;
use crate::minimize::StructCase;
use crate::model::*;
use crate::provider::Cancel;
use crate::reference::*;
use crate::run::*;
use crate::runner::Failure;
use crate::sched::Policy;
use crate::tape::Tape;
use std::rc::Rc;

pub const REF_BUDGET: u64 = 300_000;

/// Generate a runtime from the tape: sync, or async with one of the schedule policies.
pub fn gen_runtime(t: &mut Tape, async_weight: u32) -> Runtime {
    match t.weighted(&[10, async_weight]) {
        0 => Runtime::Sync,
        _ => gen_async_runtime(t),
    }
}

pub fn gen_async_runtime(t: &mut Tape) -> Runtime {
    let policy = match t.weighted(&[2, 2, 2, 6]) {
        0 => Policy::Fifo,
        1 => Policy::Lifo,
        2 => Policy::All,
        _ => {
            let n = 4 + t.below(40);
            Policy::Choices((0..n).map(|_| t.next()).collect())
        }
    };
    // immediate-ready bits: none, or generated
    let immediate = if t.chance(1, 2) {
        let n = 1 + t.below(4);
        (0..n).map(|_| t.next()).collect()
    } else {
        vec![]
    };
    Runtime::Async { policy, immediate }
}

/// Outcomes that are wrong whatever the property: panics, deadlocks, budgets, and
/// cancellation that nobody asked for. Signatures are shared so that one known finding
/// can be recognised from any property's check.
pub fn abnormal(out: &Outcome, cancel: Cancel) -> Option<Failure> {
    match out {
        Outcome::Panic(p) => Some(Failure {
            signature: p.signature(),
            detail: format!("solve panicked: {} at {}:{} in {}", p.message, p.file, p.line, p.function),
        }),
        Outcome::RenderPanic(p) => Some(Failure {
            signature: format!("render-{}", p.signature()),
            detail: format!(
                "conflict graph/rendering panicked: {} at {}:{} in {}",
                p.message, p.file, p.line, p.function
            ),
        }),
        Outcome::Deadlock => Some(Failure {
            signature: "deadlock".into(),
            detail: "solve is pending, was not woken, and no provider request is outstanding".into(),
        }),
        Outcome::StepBudget => Some(Failure {
            signature: "step-budget".into(),
            detail: "solve exceeded the poll/step budget (non-termination)".into(),
        }),
        Outcome::CancelledForeign => Some(Failure {
            signature: "cancelled-foreign-value".into(),
            detail: "Cancelled carried a value the provider never returned".into(),
        }),
        Outcome::ObserverFail(e) => Some(Failure {
            signature: "quiescence-invariant".into(),
            detail: e.clone(),
        }),
        Outcome::Cancelled(k) if cancel == Cancel::Never => Some(Failure {
            signature: "spurious-cancel".into(),
            detail: format!("Cancelled({k}) although cancellation never fired"),
        }),
        Outcome::Unsat(d) if d.overflow.is_some() => Some(Failure {
            signature: format!("render-overflow:{}", d.overflow.clone().unwrap()),
            detail: format!(
                "{} exceeded its size bound for a conflict with {} nodes / {} edges",
                d.overflow.clone().unwrap(),
                d.graph.nodes.len(),
                d.graph.edges.len()
            ),
        }),
        _ => None,
    }
}

/// tape -> structured case: universe + problem + runtime; the rest of the tape is kept as
/// `extra` for property-specific choices (variants, cancellation points, ...).
pub fn decode_case(tape: &[u16], params: &Params, async_weight: u32) -> StructCase {
    // the first 96 values are reserved for property-specific choices so that they are
    // populated however much of the tape the universe consumes
    let split = tape.len().min(96);
    let (head, tail) = tape.split_at(split);
    let mut t = Tape::new(tail);
    let (u, problem) = gen_case(&mut t, params);
    let rt = if async_weight == 0 {
        Runtime::Sync
    } else {
        gen_runtime(&mut t, async_weight)
    };
    StructCase {
        u,
        problem,
        rt,
        extra: head.to_vec(),
        more: vec![],
    }
}

pub fn case_of(sc: &StructCase) -> Case {
    Case {
        ix: Index::new(&sc.u),
        u: Rc::new(sc.u.clone()),
        problem: sc.problem.clone(),
    }
}

/// Boilerplate for properties whose input is a `StructCase`.
#[macro_export]
macro_rules! struct_property {
    ($ty:ty, $id:expr, $rule:expr) => {
        $crate::struct_property!($ty, $id, $rule, |_s: &$ty| 1600usize);
    };
    ($ty:ty, $id:expr, $rule:expr, $maxtape:expr) => {
        impl $crate::runner::Property for $ty {
            fn id(&self) -> &'static str {
                $id
            }
            fn stage(&self) -> &'static str {
                self.stage
            }
            fn max_tape(&self) -> usize {
                ($maxtape)(self)
            }
            fn rule(&self) -> String {
                $rule.to_string()
            }
            fn describe(&self, tape: &[u16]) -> String {
                let sc = self.decode(tape);
                self.describe_struct(&sc)
            }
            fn eval(&self, tape: &[u16]) -> $crate::runner::CaseReport {
                let sc = self.decode(tape);
                self.eval_struct(&sc)
            }
            fn decode_struct(&self, tape: &[u16]) -> Option<$crate::minimize::StructCase> {
                Some(self.decode(tape))
            }
            fn eval_struct(&self, sc: &$crate::minimize::StructCase) -> $crate::runner::CaseReport {
                let c = $crate::props::common::case_of(sc);
                let mut rep = $crate::runner::CaseReport {
                    case_hash: $crate::runner::hash_of(&(&sc.u, &sc.problem, format!("{:?}", sc.rt), &sc.extra)),
                    ..Default::default()
                };
                self.check(sc, &c, &mut rep);
                rep
            }
        }
    };
}

pub struct Case {
    pub u: Rc<Universe>,
    pub ix: Index,
    pub problem: Problem,
}

pub fn build_case(t: &mut Tape, params: &Params) -> Case {
    let (u, problem) = gen_case(t, params);
    debug_assert!(check_well_formed(&u, &problem).is_ok());
    let ix = Index::new(&u);
    Case {
        u: Rc::new(u),
        ix,
        problem,
    }
}

/// Size labels: thresholds that only the `huge` / `wide` stages reach.
pub fn size_labels(u: &Universe, labels: &mut Vec<&'static str>) {
    let big = u.packages.iter().map(|p| p.cands.len()).max().unwrap_or(0);
    if big >= 256 {
        labels.push("package>=256-candidates");
    }
    if big >= 4096 {
        labels.push("package>=4096-candidates");
    }
    if u.n_solvables() > 256 {
        labels.push("solvables>256");
    }
}

/// Feature labels of a universe/problem used for histograms and non-triviality rules.
pub fn feature_count(u: &Universe, p: &Problem) -> (usize, Vec<&'static str>) {
    let mut f = vec![];
    if u.packages.iter().any(|p| !matches!(p.hint, Hint::None)) {
        f.push("hint");
    }
    if u.packages.iter().any(|p| p.cands.iter().any(|c| c.excluded.is_some())) {
        f.push("exclusion");
    }
    if u.packages.iter().any(|p| p.has_lock()) {
        f.push("lock");
    }
    if u.packages.iter().any(|p| p.lock_gone) {
        f.push("lock-gone");
    }
    if !p.soft.is_empty() {
        f.push("soft");
    }
    if u.packages.iter().any(|p| p.missing) {
        f.push("missing");
    }
    if u
        .packages
        .iter()
        .any(|p| p.cands.iter().any(|c| matches!(c.deps, Deps::Unknown(_))))
    {
        f.push("unknown");
    }
    if !u.unions.is_empty() {
        f.push("union");
    }
    if u.packages.iter().any(|p| p.favored.is_some()) {
        f.push("favored");
    }
    let self_ref = u.packages.iter().enumerate().any(|(pi, p)| {
        p.cands.iter().any(|c| match &c.deps {
            Deps::Known { reqs, constrains } => {
                reqs.iter()
                    .any(|r| u.req_vsets(r).iter().any(|&v| u.vsets[v].pkg == pi))
                    || constrains.iter().any(|&v| u.vsets[v].pkg == pi)
            }
            _ => false,
        })
    });
    if self_ref {
        f.push("self-ref");
    }
    (f.len(), f)
}

pub fn reference_verdict(c: &Case) -> Exists {
    let hard = Problem {
        reqs: c.problem.reqs.clone(),
        constraints: c.problem.constraints.clone(),
        soft: vec![],
    };
    exists_solution(&c.u, &hard, &[], REF_BUDGET)
}

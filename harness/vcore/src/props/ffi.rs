//! C17: the parent side. Cases are evaluated by `ffidrv`, a separate nightly build with
//! AddressSanitizer (Rust + C++), UBSan traps (C++) and a ledger allocator, kept alive as
//! one child process per worker thread. A memory error aborts the child; its sanitizer
//! report is attributed to the case that was being evaluated.

use crate::runner::*;
use std::cell::RefCell;
use std::io::{BufRead, BufReader, Write};
use std::process::{Child, ChildStdin, ChildStdout, Command, Stdio};

pub struct C17 {
    /// property this stage belongs to ("C17", or "C18"/"C19" for their ASan stages)
    pub id: &'static str,
    pub stage: &'static str,
    /// "solve" | "cpp" | "rust"
    pub kind: &'static str,
    pub max_tape: usize,
}

struct Worker {
    child: Child,
    stdin: ChildStdin,
    stdout: BufReader<ChildStdout>,
    stderr_path: std::path::PathBuf,
}

thread_local! {
    static WORKER: RefCell<Option<Worker>> = const { RefCell::new(None) };
}

pub fn ffidrv_path() -> std::path::PathBuf {
    std::env::var_os("VERIF_FFIDRV")
        .map(Into::into)
        .unwrap_or_else(|| verif_root().join("target-ffi/x86_64-unknown-linux-gnu/release/ffidrv"))
}

fn spawn() -> Result<Worker, String> {
    static N: std::sync::atomic::AtomicUsize = std::sync::atomic::AtomicUsize::new(0);
    let n = N.fetch_add(1, std::sync::atomic::Ordering::SeqCst);
    let dir = verif_root().join("target");
    let _ = std::fs::create_dir_all(&dir);
    let stderr_path = dir.join(format!("ffidrv-stderr-{}-{n}.log", std::process::id()));
    let errfile = std::fs::File::create(&stderr_path).map_err(|e| e.to_string())?;
    let mut child = Command::new(ffidrv_path())
        .env("ASAN_OPTIONS", "detect_leaks=0:abort_on_error=0:halt_on_error=1:symbolize=1:allocator_may_return_null=1")
        .env("ASAN_SYMBOLIZER_PATH", "/usr/bin/llvm-symbolizer-14")
        .stdin(Stdio::piped())
        .stdout(Stdio::piped())
        .stderr(errfile)
        .spawn()
        .map_err(|e| format!("cannot start {}: {e}", ffidrv_path().display()))?;
    let stdin = child.stdin.take().unwrap();
    let stdout = BufReader::new(child.stdout.take().unwrap());
    Ok(Worker {
        child,
        stdin,
        stdout,
        stderr_path,
    })
}

/// signature + detail from a sanitizer report
fn classify_crash(report: &str, status: &str) -> (String, String) {
    let mut kind = String::new();
    for l in report.lines() {
        if let Some(p) = l.find("ERROR: AddressSanitizer: ") {
            kind = l[p + 25..].split_whitespace().next().unwrap_or("").to_string();
            break;
        }
        if l.contains("LeakSanitizer") {
            kind = "leak".into();
            break;
        }
    }
    // first frame that names resolvo code
    let mut frame = String::new();
    for l in report.lines() {
        let t = l.trim_start();
        if t.starts_with('#') && t.contains(" in ") {
            let f = t.split(" in ").nth(1).unwrap_or("");
            if f.contains("resolvo") {
                let f = f.split(" /").next().unwrap_or(f);
                let f = f.split('(').next().unwrap_or(f);
                frame = f.trim().to_string();
                break;
            }
        }
    }
    if kind.is_empty() {
        (
            format!("C17:child-died:{status}"),
            format!("ffidrv died ({status}) without a sanitizer report; stderr:\n{}", report.chars().take(3000).collect::<String>()),
        )
    } else {
        (
            format!("C17:asan:{kind}:{frame}"),
            format!("AddressSanitizer report:\n{}", report.chars().take(6000).collect::<String>()),
        )
    }
}

impl C17 {
    fn ask(&self, tape: &[u16]) -> Result<serde_json::Value, (String, String)> {
        WORKER.with(|w| {
            let mut w = w.borrow_mut();
            if w.is_none() {
                *w = Some(spawn().map_err(|e| ("HARNESS:ffidrv-missing".to_string(), e))?);
            }
            let worker = w.as_mut().unwrap();
            let mut line = String::with_capacity(tape.len() * 6 + 8);
            line.push_str(self.kind);
            for v in tape {
                line.push(' ');
                line.push_str(&v.to_string());
            }
            line.push('\n');
            let sent = worker.stdin.write_all(line.as_bytes()).and_then(|_| worker.stdin.flush());
            let mut resp = String::new();
            let got = if sent.is_ok() {
                worker.stdout.read_line(&mut resp).unwrap_or(0)
            } else {
                0
            };
            if got == 0 || !resp.starts_with("R ") {
                // the child died: collect its report and restart lazily
                let mut dead = w.take().unwrap();
                let status = dead
                    .child
                    .wait()
                    .map(|s| {
                        use std::os::unix::process::ExitStatusExt;
                        match (s.code(), s.signal()) {
                            (Some(c), _) => format!("exit-{c}"),
                            (None, Some(sig)) => format!("signal-{sig}"),
                            _ => "unknown".to_string(),
                        }
                    })
                    .unwrap_or_else(|_| "unknown".into());
                let report = std::fs::read_to_string(&dead.stderr_path).unwrap_or_default();
                let _ = std::fs::remove_file(&dead.stderr_path);
                return Err(classify_crash(&report, &status));
            }
            serde_json::from_str::<serde_json::Value>(&resp[2..]).map_err(|e| ("HARNESS:bad-response".to_string(), format!("{e}: {resp}")))
        })
    }
}

pub fn shutdown_workers() {
    WORKER.with(|w| {
        if let Some(mut worker) = w.borrow_mut().take() {
            drop(worker.stdin);
            let _ = worker.child.wait();
            let _ = std::fs::remove_file(&worker.stderr_path);
        }
    });
}

impl Property for C17 {
    fn id(&self) -> &'static str {
        self.id
    }
    fn stage(&self) -> &'static str {
        self.stage
    }
    fn max_tape(&self) -> usize {
        self.max_tape
    }
    fn shrink_budget(&self) -> usize {
        // a crashing evaluation restarts the instrumented child and symbolizes a report
        200
    }
    fn rule(&self) -> String {
        match self.kind {
            "solve" => "tape -> universe expressible through the C++ interface (no Unknown, missing = empty list, hints as list; requirements, constraints, soft requirements, unions, favored/locked/excluded) solved twice: through resolvo::solve with a C++ DependencyProvider (built against the current headers; the provider constructs its Vector/String results in several generated styles) and through the Rust API with the equivalent provider; solution vector or error text must be identical. Runs under ASan (Rust+C++), UBSan traps (C++) and a ledger allocator that checks every dealloc layout and per-case leaks. Non-trivial: >=3 get_candidates, filter and get_dependencies callbacks crossed the boundary and the case is unsat or has >=3 solvables.".into(),
            "c18" | "c19" => "the same histories as the main stage, evaluated inside the AddressSanitizer-instrumented child process (nightly build of resolvo with -Zsanitizer=address and a ledger allocator): an out-of-bounds, dangling or mismatched-layout access in the unsafe container code aborts the child and is reported with the sanitizer's stack.".into(),
            "cpp" => "tape -> history of up to 40 operations over a register file of resolvo::Vector<SolvableId>, resolvo::String and resolvo::Vector<String> in C++ (all constructors, copy construction, copy/move assignment between any two registers incl. the same one, push_back, clear, index, iterate, compare, Slice conversion, hand to Rust and back where Rust reads / clones+pushes / rebuilds via FromIterator / replaces) against a Rust model that predicts every register after every step; ASan + UBSan traps + ledger allocator give the memory-safety verdict. Non-trivial: a shared-then-mutated container and >=1 boundary crossing.".into(),
            _ => "tape -> history of up to 50 operations on resolvo_cpp's Rust Vector<u32>, Vector<String> and String (with_capacity, push past capacity, clone, clone+push => detach, into_iter shared/unshared fully and partially consumed, FromIterator with under- and over-reporting size_hint, swap, drop) against Vec/String models after every step, under ASan + ledger allocator. Non-trivial: a shared-then-mutated container and a partially consumed into_iter.".into(),
        }
    }
    fn describe(&self, tape: &[u16]) -> String {
        match self.ask(tape) {
            Ok(v) => format!("[{}] {}\n", self.kind, v["describe"].as_str().unwrap_or("")),
            Err(_) => format!("[{}] (case crashes the instrumented child; tape {:?})\n", self.kind, tape),
        }
    }
    fn eval(&self, tape: &[u16]) -> CaseReport {
        let mut rep = CaseReport {
            evaluations: 1,
            case_hash: hash_of(&(self.kind, tape)),
            ..Default::default()
        };
        match self.ask(tape) {
            Ok(v) => {
                rep.nontrivial = v["nontrivial"].as_bool().unwrap_or(false);
                if let Some(ls) = v["labels"].as_array() {
                    for l in ls {
                        match l.as_str() {
                            Some("sat") => rep.labels.push("sat"),
                            Some("unsat") => rep.labels.push("unsat"),
                            Some("callbacks>=3-each") => rep.labels.push("callbacks>=3-each"),
                            Some("boundary-crossing") => rep.labels.push("boundary-crossing"),
                            Some("shared-then-mutated") => rep.labels.push("shared-then-mutated"),
                            Some("partial-into-iter") => rep.labels.push("partial-into-iter"),
                            Some("chunk-boundaries>=2") => rep.labels.push("chunk-boundaries>=2"),
                            Some("non-initial-segment") => rep.labels.push("non-initial-segment"),
                            Some("id>=128") => rep.labels.push("id>=128"),
                            Some("unset") => rep.labels.push("unset"),
                            _ => {}
                        }
                    }
                }
                if let Some(f) = v["failure"].as_object() {
                    rep.failure = Some(Failure {
                        signature: f["signature"].as_str().unwrap_or("C17:unknown").to_string(),
                        detail: f["detail"].as_str().unwrap_or("").to_string(),
                    });
                }
            }
            Err((sig, detail)) => {
                if sig.starts_with("HARNESS") {
                    panic!("{sig}: {detail}");
                }
                rep.failure = Some(Failure { signature: sig, detail });
            }
        }
        rep
    }
}

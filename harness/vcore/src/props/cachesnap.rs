//! C20 (SolverCache consistency) and C16 (dependency snapshots).

use super::common::*;
use crate::gen::*;
use crate::minimize::StructCase;
use crate::model::*;
use crate::provider::*;
use crate::reference::*;
use crate::run::*;
use crate::sched::Policy;
use crate::runner::*;
use crate::struct_property;
use crate::tape::Tape;
use futures::FutureExt;
use resolvo::snapshot::DependencySnapshot;
use resolvo::{
    Dependencies, DependencyProvider, HintDependenciesAvailable, Interner, NameId, Problem as RProblem, Requirement,
    SolvableId, Solver, SolverCache, StringId, UnsolvableOrCancelled, VersionSetId, VersionSetUnionId,
};
use std::collections::{BTreeSet, HashSet};
use std::rc::Rc;

// =============================================================================== C20

pub struct C20 {
    pub params: Params,
    pub stage: &'static str,
    pub max_ops: usize,
}

fn sids(u: &Universe, v: &[SRef]) -> Vec<u32> {
    v.iter().map(|&s| u.cand(s).sid).collect()
}

impl C20 {
    fn decode(&self, tape: &[u16]) -> StructCase {
        decode_case(tape, &self.params, 0)
    }

    fn check(&self, sc: &StructCase, c: &Case, rep: &mut CaseReport) {
        rep.evaluations = 1;
        let u = &c.u;
        let res = guarded(|| -> Result<(bool, bool, bool), Failure> {
            let provider = TableProvider::new(c.u.clone());
            provider.log_all.set(true);
            // the tail of `extra` decides the provider flavour (older tapes keep their meaning)
            let reversed = sc.extra.get(95).map_or(false, |v| v & 1 == 1);
            provider.vary_answers();
            let reversed = reversed || provider.filter_reversed.get();
            provider.filter_reversed.set(reversed);
            let cache = SolverCache::new(provider);
            let log_len = |cache: &SolverCache<TableProvider>| cache.provider().log.borrow().len();
            let mut fetched_pkgs: HashSet<usize> = HashSet::new();
            let mut fetched_deps: HashSet<SRef> = HashSet::new();
            let mut done: HashSet<String> = HashSet::new();
            let mut t = Tape::new(&sc.extra);
            let n_ops = 4 + t.below(self.max_ops);
            let all_solvables: Vec<SRef> = u
                .packages
                .iter()
                .enumerate()
                .flat_map(|(pi, pk)| {
                    (0..pk.cands.len()).map(move |idx| SRef {
                        pkg: pi,
                        idx,
                        listed: true,
                    })
                })
                .collect();
            let unlisted_solvables: Vec<SRef> = u
                .packages
                .iter()
                .enumerate()
                .flat_map(|(pi, pk)| (0..pk.unlisted.len()).map(move |idx| SRef { pkg: pi, idx, listed: false }))
                .collect();
            let bad = |sig: &str, d: String| Failure {
                signature: format!("C20:{sig}"),
                detail: d,
            };
            let (mut fav_rot, mut some_hint, mut repeated) = (false, false, false);
            for i in 0..n_ops {
                let kind = t.below(7);
                let key;
                let before = log_len(&cache);
                match kind {
                    0 => {
                        let pi = t.below(u.packages.len());
                        key = format!("cands:{pi}");
                        let got = cache
                            .get_or_cache_candidates(NameId(u.packages[pi].name_id))
                            .now_or_never()
                            .expect("sync")
                            .map_err(|_| bad("unexpected-cancel", key.clone()))?;
                        let want = cache.provider().candidates_of(pi).unwrap_or_default();
                        let same = got.candidates == want.candidates
                            && got.favored == want.favored
                            && got.locked == want.locked
                            && got.excluded == want.excluded;
                        if !same {
                            return Err(bad("candidates", format!("op #{i} {key}: {got:?} vs provider {want:?}")));
                        }
                        fetched_pkgs.insert(pi);
                    }
                    1 | 2 => {
                        if u.vsets.is_empty() {
                            continue;
                        }
                        let vs = t.below(u.vsets.len());
                        let inverse = kind == 2;
                        key = format!("match:{vs}:{inverse}");
                        let id = VersionSetId(u.vsets[vs].id);
                        let got = if inverse {
                            cache.get_or_cache_non_matching_candidates(id).now_or_never()
                        } else {
                            cache.get_or_cache_matching_candidates(id).now_or_never()
                        }
                        .expect("sync")
                        .map_err(|_| bad("unexpected-cancel", key.clone()))?;
                        let mut want = if inverse { sids(u, &u.vs_non_cands(vs)) } else { sids(u, &u.vs_cands(vs)) };
                        let mut got: Vec<u32> = got.iter().map(|s| s.0).collect();
                        if reversed {
                            // the provider answers in its own order; what must agree is the partition
                            want.sort_unstable();
                            got.sort_unstable();
                        }
                        if got != want {
                            return Err(bad(
                                if inverse { "non-matching" } else { "matching" },
                                format!("op #{i} {key} ({}): got {got:?}, filter_candidates defines {want:?}", u.display_vs(vs)),
                            ));
                        }
                        // partition check against the other list when both are cached
                        fetched_pkgs.insert(u.vsets[vs].pkg);
                    }
                    3 => {
                        if u.vsets.is_empty() {
                            continue;
                        }
                        let vs = t.below(u.vsets.len());
                        key = format!("sorted:{vs}");
                        let got = cache
                            .get_or_cache_sorted_candidates(Requirement::Single(VersionSetId(u.vsets[vs].id)))
                            .now_or_never()
                            .expect("sync")
                            .map_err(|_| bad("unexpected-cancel", key.clone()))?;
                        let want = sids(u, &u.vs_ranked(vs));
                        let got: Vec<u32> = got.iter().map(|s| s.0).collect();
                        if got != want {
                            return Err(bad(
                                "sorted",
                                format!(
                                    "op #{i} {key} ({} of {}): got {got:?}, expected sort order with favored first {want:?}",
                                    u.display_vs(vs),
                                    u.packages[u.vsets[vs].pkg].name
                                ),
                            ));
                        }
                        let pk = &u.packages[u.vsets[vs].pkg];
                        if let Some(f) = pk.favored {
                            if u.vsets[vs].matches.contains(&f) && pk.sort_rank.first() != Some(&f) {
                                fav_rot = true;
                            }
                        }
                        fetched_pkgs.insert(u.vsets[vs].pkg);
                    }
                    4 => {
                        if u.unions.is_empty() {
                            continue;
                        }
                        let un = t.below(u.unions.len());
                        key = format!("sorted-union:{un}");
                        let got = cache
                            .get_or_cache_sorted_candidates(Requirement::Union(VersionSetUnionId(u.unions[un].id)))
                            .now_or_never()
                            .expect("sync")
                            .map_err(|_| bad("unexpected-cancel", key.clone()))?;
                        let want: Vec<u32> = u.unions[un].members.iter().flat_map(|&m| sids(u, &u.vs_ranked(m))).collect();
                        let got: Vec<u32> = got.iter().map(|s| s.0).collect();
                        if got != want {
                            return Err(bad("sorted-union", format!("op #{i} {key}: got {got:?}, expected {want:?}")));
                        }
                        for &m in &u.unions[un].members {
                            fetched_pkgs.insert(u.vsets[m].pkg);
                        }
                    }
                    5 => {
                        if all_solvables.is_empty() {
                            continue;
                        }
                        let s = all_solvables[t.below(all_solvables.len())];
                        key = format!("deps:{}", u.cand(s).sid);
                        let got = cache
                            .get_or_cache_dependencies(SolvableId(u.cand(s).sid))
                            .now_or_never()
                            .expect("sync")
                            .map_err(|_| bad("unexpected-cancel", key.clone()))?;
                        let want = cache.provider().dependencies_of(s);
                        let same = match (got, &want) {
                            (Dependencies::Unknown(a), Dependencies::Unknown(b)) => a == b,
                            (Dependencies::Known(a), Dependencies::Known(b)) => {
                                a.requirements == b.requirements && a.constrains == b.constrains
                            }
                            _ => false,
                        };
                        if !same {
                            return Err(bad("dependencies", format!("op #{i} {key}: {got:?} vs provider {want:?}")));
                        }
                        fetched_deps.insert(s);
                    }
                    _ => {
                        key = "available".to_string();
                    }
                }
                // repeated queries must not consult the provider again
                if !done.insert(key.clone()) && key != "available" {
                    repeated = true;
                    let after = log_len(&cache);
                    if after != before {
                        return Err(bad(
                            "repeated-query-consulted-provider",
                            format!(
                                "op #{i} {key} was answered before, yet the provider received {:?}",
                                &cache.provider().log.borrow()[before..]
                            ),
                        ));
                    }
                }
                // availability, after every op, for every solvable
                for &s in all_solvables.iter().chain(unlisted_solvables.iter()) {
                    let pk = &u.packages[s.pkg];
                    if matches!(pk.hint, Hint::Some(_)) {
                        some_hint = true;
                    }
                    let hinted = fetched_pkgs.contains(&s.pkg) && pk.hints(s.listed, s.idx);
                    let want = hinted || fetched_deps.contains(&s);
                    let got = cache.are_dependencies_available_for(SolvableId(u.cand(s).sid));
                    if got != want {
                        return Err(bad(
                            "availability",
                            format!(
                                "after op #{i} {key}: are_dependencies_available_for({}) = {got}, expected {want} (hinted={hinted}, fetched={})",
                                u.display_solvable(s),
                                fetched_deps.contains(&s)
                            ),
                        ));
                    }
                }
            }
            Ok((fav_rot, some_hint, repeated))
        });
        match res {
            Ok(Ok((a, b, r))) => {
                if a {
                    rep.labels.push("favored-rotated");
                }
                if b {
                    rep.labels.push("some-hints");
                }
                if r {
                    rep.labels.push("repeated-query");
                }
                rep.nontrivial = a || b || r;
            }
            Ok(Err(f)) => {
                rep.failure = Some(f);
                return;
            }
            Err(p) => {
                rep.failure = Some(Failure {
                    signature: p.signature(),
                    detail: format!("panic: {} at {}:{}", p.message, p.file, p.line),
                });
                return;
            }
        }
        // Union answers are the members' sorted lists in MEMBER order, whatever order an
        // asynchronous provider completes the members' requests in.
        for (ui, un) in c.u.unions.iter().enumerate().take(3) {
            if un.members.len() < 2 {
                continue;
            }
            let policy = if sc.extra.get(94 - ui).map_or(true, |v| v & 1 == 0) { Policy::Lifo } else { Policy::Fifo };
            let sched = crate::sched::Sched::new(policy, vec![]);
            let provider = TableProvider::new(c.u.clone()).with_sched(sched.clone());
            provider.vary_answers();
            let cache = SolverCache::new(provider);
            let rt = crate::sched::SchedRuntime { sched: sched.clone() };
            let req = Requirement::Union(VersionSetUnionId(un.id));
            let r = guarded(|| {
                use resolvo::runtime::AsyncRuntime;
                rt.block_on(cache.get_or_cache_sorted_candidates(req))
                    .map(|v| v.iter().map(|s| s.0).collect::<Vec<u32>>())
                    .map_err(|_| ())
            });
            rep.evaluations += 1;
            match r {
                Err(p) => {
                    rep.failure = Some(Failure {
                        signature: if p.message.starts_with(crate::sched::DEADLOCK_MSG) { "deadlock".into() } else { p.signature() },
                        detail: format!("async SolverCache::get_or_cache_sorted_candidates(union {ui}): {}", p.message),
                    });
                    return;
                }
                Ok(Err(())) => {
                    rep.failure = Some(Failure {
                        signature: "C20:unexpected-cancel".into(),
                        detail: format!("async union {ui}"),
                    });
                    return;
                }
                Ok(Ok(got)) => {
                    let want: Vec<u32> = un.members.iter().flat_map(|&m| sids(u, &u.vs_ranked(m))).collect();
                    rep.labels.push("async-union");
                    if got != want {
                        rep.failure = Some(Failure {
                            signature: "C20:sorted-union-async".into(),
                            detail: format!(
                                "union {ui} answered through an asynchronous provider: got {got:?}, expected the members' sorted candidates in member order {want:?}"
                            ),
                        });
                        return;
                    }
                }
            }
        }
        // Abandoned requests: a caller starts a request, is suspended in the (asynchronous)
        // provider and is dropped - the way Rust cancels (select, timeout, a cancelled solve).
        // Nothing was fetched, so availability must not change; a second caller that was
        // waiting for the first one takes the request over; once a request has completed the
        // provider is not consulted again.
        if let Some(f) = self.abandoned_requests(sc, c, rep) {
            rep.failure = Some(f);
            return;
        }
        // re-entrant queries from inside sort_candidates during a solve
        let mut outcomes = vec![];
        for probe in [SortProbe::Off, SortProbe::On] {
            let mut session = Session::new(c.u.clone(), &Runtime::Sync, None);
            session.provider().probe.set(probe);
            let res = session.solve(&c.problem, Cancel::Never, false, false);
            rep.evaluations += 1;
            if let Some(f) = abnormal(&res.outcome, Cancel::Never) {
                rep.failure = Some(Failure {
                    detail: format!("solve with probing sort {probe:?}: {}", f.detail),
                    ..f
                });
                return;
            }
            if probe == SortProbe::On {
                for (sid, got, want) in session.provider().probe_log.borrow().iter() {
                    if got != want {
                        rep.failure = Some(Failure {
                            signature: "C20:availability-inside-sort".into(),
                            detail: format!(
                                "during solve, sort_candidates asked are_dependencies_available_for({sid}) = {got}, expected {want}"
                            ),
                        });
                        return;
                    }
                }
                if !session.provider().probe_log.borrow().is_empty() {
                    rep.labels.push("probed-inside-sort");
                }
            }
            outcomes.push(match &res.outcome {
                Outcome::Sat(s) => format!("SAT {s:?}"),
                o => o.kind().to_string(),
            });
        }
        if outcomes[0] != outcomes[1] {
            rep.failure = Some(Failure {
                signature: "C20:reentrant-queries-changed-result".into(),
                detail: format!("without probing: {}, with probing sort: {}", outcomes[0], outcomes[1]),
            });
        }
    }
}

impl C20 {
    fn abandoned_requests(&self, sc: &StructCase, c: &Case, rep: &mut CaseReport) -> Option<Failure> {
        use resolvo::runtime::AsyncRuntime;
        use std::future::Future;
        use std::task::Poll;
        let u = &c.u;
        let all: Vec<SRef> = u
            .packages
            .iter()
            .enumerate()
            .flat_map(|(pi, pk)| {
                (0..pk.cands.len())
                    .map(move |idx| SRef { pkg: pi, idx, listed: true })
                    .chain((0..pk.unlisted.len()).map(move |idx| SRef { pkg: pi, idx, listed: false }))
            })
            .collect();
        if all.is_empty() {
            return None;
        }
        let pick = |i: usize, n: usize| (sc.extra.get(80 + i).copied().unwrap_or(0) as usize * n) >> 16;
        let s = all[pick(0, all.len())];
        let sid = SolvableId(u.cand(s).sid);
        let pkg = pick(1, u.packages.len());
        let name = NameId(u.packages[pkg].name_id);
        let with_listener = pick(2, 2) == 1;
        let extra_waiters = if with_listener { pick(3, 4) } else { 0 };
        let sched = crate::sched::Sched::new(Policy::Fifo, vec![]);
        let provider = TableProvider::new(c.u.clone()).with_sched(sched.clone());
        provider.vary_answers();
        let cache = SolverCache::new(provider);
        let rt = crate::sched::SchedRuntime { sched: sched.clone() };
        let bad = |sig: &str, d: String| Failure { signature: format!("C20:{sig}"), detail: d };
        let availability = |cache: &SolverCache<TableProvider>, fetched_pkgs: &[usize], fetched: &[SRef], when: &str| -> Option<Failure> {
            for &x in &all {
                let pk = &u.packages[x.pkg];
                let hinted = fetched_pkgs.contains(&x.pkg) && pk.hints(x.listed, x.idx);
                let want = hinted || fetched.contains(&x);
                let got = cache.are_dependencies_available_for(SolvableId(u.cand(x).sid));
                if got != want {
                    return Some(Failure {
                        signature: "C20:availability".into(),
                        detail: format!(
                            "{when}: are_dependencies_available_for({}) = {got}, expected {want} (hinted by a fetched package: {hinted}, dependencies fetched: {})",
                            u.display_solvable(x),
                            fetched.contains(&x)
                        ),
                    });
                }
            }
            None
        };
        let r = guarded(|| -> Option<Failure> {
            rt.block_on(async {
                // --- dependencies of one solvable
                let mut a = Box::pin(cache.get_or_cache_dependencies(sid));
                let ready = futures::future::poll_fn(|cx| Poll::Ready(a.as_mut().poll(cx).is_ready())).await;
                if ready {
                    return Some(bad("gated-request-completed-at-once", format!("get_or_cache_dependencies({})", u.display_solvable(s))));
                }
                // a request that is merely in flight has fetched nothing yet
                if let Some(f) = availability(&cache, &[], &[], "while a dependencies request is suspended in the provider") {
                    return Some(f);
                }
                let mut b = Box::pin(cache.get_or_cache_dependencies(sid));
                // further callers that wait for the same request
                let mut more: Vec<_> = (0..extra_waiters).map(|_| Box::pin(cache.get_or_cache_dependencies(sid))).collect();
                if with_listener {
                    let _ = futures::future::poll_fn(|cx| Poll::Ready(b.as_mut().poll(cx).is_ready())).await;
                    for w in more.iter_mut() {
                        let _ = futures::future::poll_fn(|cx| Poll::Ready(w.as_mut().poll(cx).is_ready())).await;
                    }
                }
                drop(a);
                if let Some(f) = availability(&cache, &[], &[], "after a dependencies request was abandoned while suspended in the provider") {
                    return Some(f);
                }
                // every waiting caller gets to run before any of them completes: exactly one of
                // them may turn to the provider
                if with_listener {
                    let _ = futures::future::poll_fn(|cx| Poll::Ready(b.as_mut().poll(cx).is_ready())).await;
                    for w in more.iter_mut() {
                        let _ = futures::future::poll_fn(|cx| Poll::Ready(w.as_mut().poll(cx).is_ready())).await;
                    }
                    let outstanding = sched.outstanding().iter().filter(|(k, key)| *k == crate::sched::ReqKind::Dependencies && *key == sid.0).count();
                    if outstanding > 1 {
                        return Some(bad(
                            "duplicate-provider-request",
                            format!(
                                "after the caller that made the request was dropped, {outstanding} requests for the dependencies of {} are outstanding at the same time ({} callers were waiting)",
                                u.display_solvable(s),
                                1 + extra_waiters
                            ),
                        ));
                    }
                }
                let got = match b.await {
                    Ok(d) => d.clone(),
                    Err(_) => return Some(bad("unexpected-cancel", "dependencies after an abandoned request".into())),
                };
                for w in more {
                    if w.await.is_err() {
                        return Some(bad("unexpected-cancel", "dependencies after an abandoned request (further waiting caller)".into()));
                    }
                }
                // one abandoned request, one that the waiting callers share
                let started = cache.provider().log.borrow().iter().filter(|c| matches!(c, Call::GetDependencies(x) if *x == sid.0)).count();
                if started != 2 {
                    return Some(bad(
                        "duplicate-provider-request",
                        format!(
                            "get_dependencies({}) was started {started} times: once by the caller that was dropped, and it should be started exactly once more for the {} caller(s) that were waiting",
                            u.display_solvable(s),
                            1 + extra_waiters
                        ),
                    ));
                }
                let want = cache.provider().dependencies_of(s);
                let same = match (&got, &want) {
                    (Dependencies::Unknown(x), Dependencies::Unknown(y)) => x == y,
                    (Dependencies::Known(x), Dependencies::Known(y)) => x.requirements == y.requirements && x.constrains == y.constrains,
                    _ => false,
                };
                if !same {
                    return Some(bad("dependencies", format!("after an abandoned request: {got:?} vs provider {want:?}")));
                }
                let before = cache.provider().log.borrow().len();
                let _ = cache.get_or_cache_dependencies(sid).await;
                if cache.provider().log.borrow().len() != before {
                    return Some(bad("repeated-query-consulted-provider", format!("dependencies of {} were fetched, yet asking again consulted the provider", u.display_solvable(s))));
                }
                if let Some(f) = availability(&cache, &[], &[s], "after the dependencies were fetched by the caller that took the abandoned request over") {
                    return Some(f);
                }
                // --- candidates of one package
                let mut a = Box::pin(cache.get_or_cache_candidates(name));
                let ready = futures::future::poll_fn(|cx| Poll::Ready(a.as_mut().poll(cx).is_ready())).await;
                if ready {
                    return Some(bad("gated-request-completed-at-once", format!("get_or_cache_candidates({})", u.packages[pkg].name)));
                }
                if let Some(f) = availability(&cache, &[], &[s], "while a candidates request is suspended in the provider") {
                    return Some(f);
                }
                let mut b = Box::pin(cache.get_or_cache_candidates(name));
                let mut more: Vec<_> = (0..extra_waiters).map(|_| Box::pin(cache.get_or_cache_candidates(name))).collect();
                if with_listener {
                    let _ = futures::future::poll_fn(|cx| Poll::Ready(b.as_mut().poll(cx).is_ready())).await;
                    for w in more.iter_mut() {
                        let _ = futures::future::poll_fn(|cx| Poll::Ready(w.as_mut().poll(cx).is_ready())).await;
                    }
                }
                drop(a);
                if let Some(f) = availability(&cache, &[], &[s], "after a candidates request was abandoned while suspended in the provider") {
                    return Some(f);
                }
                // every waiting caller runs before any of them completes: exactly one of them may
                // turn to the provider
                if with_listener {
                    let _ = futures::future::poll_fn(|cx| Poll::Ready(b.as_mut().poll(cx).is_ready())).await;
                    for w in more.iter_mut() {
                        let _ = futures::future::poll_fn(|cx| Poll::Ready(w.as_mut().poll(cx).is_ready())).await;
                    }
                    let outstanding = sched.outstanding().iter().filter(|(k, key)| *k == crate::sched::ReqKind::Candidates && *key == name.0).count();
                    if outstanding > 1 {
                        return Some(bad(
                            "duplicate-provider-request",
                            format!(
                                "after the caller that made the request was dropped, {outstanding} requests for the candidates of {} are outstanding at the same time ({} callers were waiting)",
                                u.packages[pkg].name,
                                1 + extra_waiters
                            ),
                        ));
                    }
                }
                let got = match b.await {
                    Ok(cands) => cands.candidates.clone(),
                    Err(_) => return Some(bad("unexpected-cancel", "candidates after an abandoned request".into())),
                };
                for w in more {
                    if w.await.is_err() {
                        return Some(bad("unexpected-cancel", "candidates after an abandoned request (further waiting caller)".into()));
                    }
                }
                let started = cache.provider().log.borrow().iter().filter(|c| matches!(c, Call::GetCandidates(x) if *x == name.0)).count();
                if started != 2 {
                    return Some(bad(
                        "duplicate-provider-request",
                        format!(
                            "get_candidates({}) was started {started} times: once by the caller that was dropped, and it should be started exactly once more for the {} caller(s) that were waiting",
                            u.packages[pkg].name,
                            1 + extra_waiters
                        ),
                    ));
                }
                let want = cache.provider().candidates_of(pkg).unwrap_or_default().candidates;
                if got != want {
                    return Some(bad("candidates", format!("after an abandoned request: {got:?} vs provider {want:?}")));
                }
                availability(&cache, &[pkg], &[s], "after the candidates were fetched by the caller that took the abandoned request over")
            })
        });
        rep.evaluations += 1;
        rep.labels.push(if with_listener { "abandoned-request-with-waiting-caller" } else { "abandoned-request" });
        match r {
            Ok(f) => f,
            Err(p) => Some(Failure {
                signature: if p.message.starts_with(crate::sched::DEADLOCK_MSG) { "deadlock".into() } else { p.signature() },
                detail: format!(
                    "abandoned request (a caller was waiting for it: {with_listener}): {} at {}:{}",
                    p.message, p.file, p.line
                ),
            }),
        }
    }
}

struct_property!(C20, "C20", "tape -> universe (all hint modes, favored anywhere in the rank, missing packages, unions) + history of direct SolverCache calls (candidates, matching, non-matching, sorted single/union, dependencies, availability) checked against the provider tables: matching/non-matching partition the listing exactly as filter_candidates defines, sorted = matching in sort_candidates order with the favored candidate rotated to the front, union = concatenation in member order (also when an asynchronous provider completes the members' requests in reverse), for half of the cases the provider's filter_candidates answers in reverse listing order and the partition is compared as sets, repeated queries return the same and leave the provider call log unchanged, and after EVERY operation are_dependencies_available_for(s) == (s hinted by a fetched package) or (dependencies of s fetched), for every solvable; plus requests that are abandoned while suspended in an asynchronous provider (availability unchanged, a waiting second caller takes the request over, the provider is consulted once more and then never again); plus a full solve whose sort_candidates re-enters the cache (availability answers checked at the time of the call, result equal to the non-probing solve). Non-trivial: a matched favored candidate that is not first in sort order, or Some-hints, or a repeated query. Distinct = distinct hash of case.");

// =============================================================================== C16

pub struct C16 {
    pub params: Params,
    pub stage: &'static str,
}

#[derive(Clone, Debug)]
struct Added {
    pkg: usize,
    matcher: String,
}

fn strip_unrepresentable(u: &mut Universe) {
    for pk in u.packages.iter_mut() {
        pk.favored = None;
        pk.locked = None;
        pk.lock_gone = false;
    }
}

impl C16 {
    fn decode(&self, tape: &[u16]) -> StructCase {
        let mut p = self.params.clone();
        p.p_favored = 0;
        p.p_locked = 0;
        p.id_w = [1, 1, 6];
        p.max_soft = 0;
        let mut sc = decode_case(tape, &p, 0);
        strip_unrepresentable(&mut sc.u);
        sc
    }

    fn check(&self, sc: &StructCase, c: &Case, rep: &mut CaseReport) {
        rep.evaluations = 1;
        if c.u.packages.iter().any(|p| p.favored.is_some() || p.has_lock()) {
            rep.skipped = Some("favored-or-locked-not-representable");
            return;
        }
        let res = guarded(|| self.run(sc, c));
        match res {
            Ok(Ok(labels)) => {
                rep.nontrivial = labels.contains(&"id>=128") && labels.contains(&"non-contiguous-ids") && labels.contains(&"added-requirement") && labels.contains(&"uses-max-captured-version-set");
                rep.labels.extend(labels);
            }
            Ok(Err(f)) => rep.failure = Some(f),
            Err(p) => {
                rep.failure = Some(Failure {
                    signature: p.signature(),
                    detail: format!("panic: {} at {}:{} in {}", p.message, p.file, p.line, p.function),
                })
            }
        }
    }

    fn run(&self, sc: &StructCase, c: &Case) -> Result<Vec<&'static str>, Failure> {
        let u = &c.u;
        let mut labels: Vec<&'static str> = vec![];
        let mut t = Tape::new(&sc.extra);
        let bad = |sig: &str, d: String| Failure {
            signature: format!("C16:{sig}"),
            detail: d,
        };
        // seeds: the problem's version sets are always seeded (so that they are captured);
        // names / solvables / extra version sets are a generated subset
        let mut seed_vs: Vec<usize> = vec![];
        let root_single: Vec<usize> = c
            .problem
            .reqs
            .iter()
            .filter_map(|r| match r {
                Req::Single(v) => Some(*v),
                _ => None,
            })
            .collect();
        seed_vs.extend(root_single.iter().copied());
        seed_vs.extend(c.problem.constraints.iter().copied());
        // decisions that must not starve when the universe is large come first
        let n_add = t.below(5);
        let use_timeout = t.chance(1, 3);
        let timeout_pos = t.below(8);
        let use_serde = t.chance(1, 2);
        let use_max = t.below(3);
        if !u.vsets.is_empty() {
            for _ in 0..t.below(6) {
                seed_vs.push(t.below(u.vsets.len()));
            }
        }
        let mut seed_names: Vec<usize> = vec![];
        for _ in 0..t.below(5) {
            seed_names.push(t.below(u.packages.len()));
        }
        seed_names.sort_unstable();
        seed_names.dedup();
        let all_solvables: Vec<SRef> = u
            .packages
            .iter()
            .enumerate()
            .flat_map(|(pi, pk)| {
                (0..pk.cands.len()).map(move |idx| SRef {
                    pkg: pi,
                    idx,
                    listed: true,
                })
            })
            .collect();
        let mut seed_solvables: Vec<SRef> = vec![];
        if !all_solvables.is_empty() {
            for _ in 0..t.below(4) {
                seed_solvables.push(all_solvables[t.below(all_solvables.len())]);
            }
        }
        let live = TableProvider::new(c.u.clone());
        let snapshot = DependencySnapshot::from_provider(
            TableProvider::new(c.u.clone()),
            seed_names.iter().map(|&p| NameId(u.packages[p].name_id)),
            seed_vs.iter().map(|&v| VersionSetId(u.vsets[v].id)),
            seed_solvables.iter().map(|&s| SolvableId(u.cand(s).sid)),
        )
        .map_err(|_| bad("from-provider-cancelled", "from_provider returned Err".into()))?;

        let snapshot = if use_serde {
            labels.push("serde-round-trip");
            // one to three cycles: what a deserialised snapshot serialises to must be a faithful
            // copy as well (a snapshot file is read, amended and written again)
            let cycles = 1 + sc.extra.get(93).map_or(0, |&v| (v as usize * 3) >> 16);
            if cycles > 1 {
                labels.push("several-serde-cycles");
            }
            let mut back: DependencySnapshot = {
                let text = serde_json::to_string(&snapshot).map_err(|e| bad("serialize", e.to_string()))?;
                serde_json::from_str(&text).map_err(|e| bad("deserialize", format!("{e}")))?
            };
            for cycle in 1..cycles {
                let text = serde_json::to_string(&back).map_err(|e| bad("serialize", format!("cycle {cycle}: {e}")))?;
                back = serde_json::from_str(&text).map_err(|e| bad("deserialize", format!("cycle {cycle}: {e}")))?;
            }
            // (e) same contents
            let keys = |s: &DependencySnapshot| {
                (
                    s.packages.iter().map(|(k, p)| (k.0, p.name.clone(), p.solvables.clone(), p.excluded.clone())).collect::<Vec<_>>(),
                    s.solvables.iter().map(|(k, v)| (k.0, v.display.clone(), v.name, v.order, format!("{:?}", v.dependencies))).collect::<Vec<_>>(),
                    s.version_sets
                        .iter()
                        .map(|(k, v)| (k.0, v.name, v.display.clone(), v.matching_candidates.iter().map(|s| s.0).collect::<BTreeSet<_>>()))
                        .collect::<Vec<_>>(),
                    s.version_set_unions
                        .iter()
                        .map(|(k, v)| (k.0, v.iter().map(|s| s.0).collect::<BTreeSet<_>>()))
                        .collect::<Vec<_>>(),
                    s.strings.iter().map(|(k, v)| (k.0, v.clone())).collect::<Vec<_>>(),
                )
            };
            if keys(&snapshot) != keys(&back) {
                return Err(bad(
                    "round-trip-differs",
                    format!("before: {:?}\nafter: {:?}", keys(&snapshot), keys(&back)),
                ));
            }
            back
        } else {
            snapshot
        };

        // what was captured
        let captured_vs: Vec<u32> = snapshot.version_sets.iter().map(|(k, _)| k.0).collect();
        let captured_pkgs: Vec<u32> = snapshot.packages.iter().map(|(k, _)| k.0).collect();
        let captured_solvables: Vec<u32> = snapshot.solvables.iter().map(|(k, _)| k.0).collect();
        for &v in &seed_vs {
            if !captured_vs.contains(&u.vsets[v].id) {
                return Err(bad("seed-not-captured", format!("version set {} was passed as a seed but is not in the snapshot", u.display_vs(v))));
            }
        }
        for &p in &seed_names {
            if !captured_pkgs.contains(&u.packages[p].name_id) {
                return Err(bad("seed-not-captured", format!("package {} was passed as a seed but is not in the snapshot", u.packages[p].name)));
            }
        }
        if captured_vs.iter().any(|&i| i >= 128) || captured_solvables.iter().any(|&i| i >= 128) || captured_pkgs.iter().any(|&i| i >= 128) {
            labels.push("id>=128");
        }
        let contiguous = |v: &Vec<u32>| v.iter().copied().eq(0..v.len() as u32);
        if !contiguous(&captured_vs) || !contiguous(&captured_pkgs) || !contiguous(&captured_solvables) {
            labels.push("non-contiguous-ids");
        }

        // (c) order preservation
        {
            let cache = SolverCache::new(snapshot.provider());
            for &pid in &captured_pkgs {
                let Some(&pi) = c.ix.name.get(&pid) else { continue };
                let pk = &u.packages[pi];
                if pk.missing {
                    continue;
                }
                let want_full: Vec<u32> = pk.sort_rank.iter().map(|&i| pk.cands[i].sid).collect();
                let mut lists: Vec<Vec<u32>> = vec![pk.cands.iter().map(|c| c.sid).collect()];
                // random sub-lists
                for _ in 0..2 {
                    let sub: Vec<u32> = pk.cands.iter().filter(|_| t.chance(1, 2)).map(|c| c.sid).collect();
                    lists.push(sub);
                }
                for list in lists {
                    let mut ids: Vec<SolvableId> = list.iter().map(|&i| SolvableId(i)).collect();
                    cache
                        .provider()
                        .sort_candidates(&cache, &mut ids)
                        .now_or_never()
                        .expect("snapshot provider is synchronous");
                    let got: Vec<u32> = ids.iter().map(|s| s.0).collect();
                    let want: Vec<u32> = want_full.iter().copied().filter(|i| list.contains(i)).collect();
                    if got != want {
                        return Err(bad(
                            "candidate-order-not-preserved",
                            format!(
                                "package {}: snapshot sorts {list:?} as {got:?}, live provider order is {want:?}",
                                pk.name
                            ),
                        ));
                    }
                }
            }
        }

        // (d) added requirements
        let mut provider = snapshot.provider();
        let mut added: Vec<(u32, Added)> = vec![];
        let pkgs_with_entry: Vec<usize> = captured_pkgs.iter().filter_map(|p| c.ix.name.get(p).copied()).collect();
        // with_timeout (a builder taking self) may be called at any point between the adds; the
        // deadline is far away, so it never fires
        let timeout_at = if use_timeout { Some(timeout_pos % (n_add + 1)) } else { None };
        let far = std::time::SystemTime::now() + std::time::Duration::from_secs(86_400);
        for k in 0..=n_add {
            if timeout_at == Some(k) {
                provider = provider.with_timeout(far);
                labels.push("with-timeout");
            }
            if k == n_add {
                break;
            }
            if pkgs_with_entry.is_empty() {
                break;
            }
            let pi = pkgs_with_entry[t.below(pkgs_with_entry.len())];
            let matcher = match t.below(3) {
                0 => "*".to_string(),
                1 => format!("={}", 1 + t.below(4)),
                _ => format!("{}", 1 + t.below(4)),
            };
            let id = provider.add_package_requirement(NameId(u.packages[pi].name_id), &matcher);
            if captured_vs.contains(&id.0) {
                return Err(bad(
                    "added-id-aliases-captured",
                    format!(
                        "add_package_requirement({}, {matcher:?}) returned id {} which is the id of a captured version set (captured ids {captured_vs:?})",
                        u.packages[pi].name, id.0
                    ),
                ));
            }
            if added.iter().any(|(i, _)| *i == id.0) {
                return Err(bad("added-id-reused", format!("id {} returned twice", id.0)));
            }
            added.push((id.0, Added { pkg: pi, matcher }));
            // every captured version set must still resolve to itself
            for &vid in &captured_vs {
                let Some(&vs) = c.ix.vset.get(&vid) else { continue };
                let name = provider.version_set_name(VersionSetId(vid));
                if name.0 != u.packages[u.vsets[vs].pkg].name_id {
                    return Err(bad(
                        "captured-version-set-shadowed",
                        format!("after adding a requirement, version_set_name({vid}) = {} (expected {})", name.0, u.packages[u.vsets[vs].pkg].name_id),
                    ));
                }
                if provider.display_version_set(VersionSetId(vid)).to_string() != live.display_version_set(VersionSetId(vid)).to_string() {
                    return Err(bad("captured-version-set-shadowed", format!("display of captured version set {vid} changed")));
                }
                let pk = &u.packages[u.vsets[vs].pkg];
                let cands: Vec<SolvableId> = pk.cands.iter().map(|c| SolvableId(c.sid)).collect();
                for inverse in [false, true] {
                    let got: Vec<u32> = provider
                        .filter_candidates(&cands, VersionSetId(vid), inverse)
                        .now_or_never()
                        .expect("sync")
                        .iter()
                        .map(|s| s.0)
                        .collect();
                    let want: Vec<u32> = if pk.missing {
                        vec![]
                    } else if inverse {
                        u.vs_non_cands(vs).iter().map(|&s| u.cand(s).sid).collect()
                    } else {
                        u.vs_cands(vs).iter().map(|&s| u.cand(s).sid).collect()
                    };
                    if got != want {
                        return Err(bad(
                            "captured-version-set-shadowed",
                            format!("filter_candidates(captured version set {vid}, inverse={inverse}) = {got:?}, live tables say {want:?}"),
                        ));
                    }
                }
            }
        }
        if !added.is_empty() {
            labels.push("added-requirement");
        }

        // extended live universe: captured problem + added version sets
        let mut u2 = (**u).clone();
        let mut added_vs_idx = vec![];
        for (id, a) in &added {
            let pk = &u2.packages[a.pkg];
            let matches: Vec<usize> = (0..pk.cands.len())
                .filter(|&i| a.matcher == "*" || format!("{}={}", pk.name, pk.cands[i].version).contains(&a.matcher))
                .collect();
            // a live version set that was NOT captured may legitimately share the id: the
            // snapshot does not know it. Renumber it in the comparison universe.
            for (k, v) in u2.vsets.iter_mut().enumerate() {
                if v.id == *id {
                    v.id = 100_000 + k as u32;
                }
            }
            u2.vsets.push(VSet {
                id: *id,
                pkg: a.pkg,
                matches,
            });
            added_vs_idx.push(u2.vsets.len() - 1);
        }
        // problem: root singles (captured), captured unions of captured solvables, added ones,
        // and explicitly the highest-numbered captured version set
        let mut problem = Problem {
            reqs: root_single.iter().map(|&v| Req::Single(v)).collect(),
            constraints: c.problem.constraints.clone(),
            soft: vec![],
        };
        let captured_union_ids: Vec<u32> = snapshot.version_set_unions.iter().map(|(k, _)| k.0).collect();
        for r in &c.problem.reqs {
            if let Req::Union(un) = r {
                if captured_union_ids.contains(&u.unions[*un].id) {
                    problem.reqs.push(r.clone());
                }
            }
        }
        for (k, &vi) in added_vs_idx.iter().enumerate() {
            if k % 2 == 0 {
                problem.reqs.push(Req::Single(vi));
            } else {
                problem.constraints.push(vi);
            }
        }
        if let Some(&max_id) = captured_vs.iter().max() {
            if let Some(&vs) = c.ix.vset.get(&max_id) {
                if use_max > 0 {
                    labels.push("uses-max-captured-version-set");
                    if use_max == 1 {
                        problem.reqs.push(Req::Single(vs));
                    } else {
                        problem.constraints.push(vs);
                    }
                }
            }
        }
        let u2 = Rc::new(u2);
        let c2 = Case {
            ix: Index::new(&u2),
            u: u2.clone(),
            problem: problem.clone(),
        };
        let expected = match reference_verdict(&c2) {
            Exists::Budget => return Ok(labels),
            Exists::Yes(_) => true,
            Exists::No => false,
        };
        // solve through the snapshot
        let reqs: Vec<Requirement> = problem
            .reqs
            .iter()
            .map(|r| match r {
                Req::Single(v) => Requirement::Single(VersionSetId(u2.vsets[*v].id)),
                Req::Union(un) => Requirement::Union(VersionSetUnionId(u2.unions[*un].id)),
            })
            .collect();
        let cons: Vec<VersionSetId> = problem.constraints.iter().map(|&v| VersionSetId(u2.vsets[v].id)).collect();
        let mut solver = Solver::new(provider);
        let got = match solver.solve(RProblem::new().requirements(reqs).constraints(cons)) {
            Ok(sol) => Some(sol.iter().map(|s| s.0).collect::<Vec<u32>>()),
            Err(UnsolvableOrCancelled::Unsolvable(conflict)) => {
                // rendering must work through the snapshot's interner as well
                let _ = conflict.display_user_friendly(&solver).to_string();
                None
            }
            Err(UnsolvableOrCancelled::Cancelled(_)) => return Err(bad("unexpected-cancel", "snapshot solve cancelled".into())),
        };
        labels.push(if got.is_some() { "sat" } else { "unsat" });
        if got.is_some() != expected {
            return Err(bad(
                "verdict-differs-from-live",
                format!(
                    "solving through the snapshot gives {}, the live provider's data admit {} (problem: {})",
                    if got.is_some() { "a solution" } else { "Unsolvable" },
                    if expected { "a solution" } else { "no solution" },
                    u2.describe(&problem)
                ),
            ));
        }
        // live differential (same solver, live provider)
        let live_res = run_once(
            &u2,
            &problem,
            &RunCfg {
                render: false,
                ..Default::default()
            },
        );
        if let Some(f) = abnormal(&live_res.outcome, Cancel::Never) {
            return Err(f);
        }
        if matches!(live_res.outcome, Outcome::Sat(_)) != expected {
            return Err(Failure {
                signature: "C02:live-verdict-differs-from-reference".into(),
                detail: "live provider verdict differs from reference".into(),
            });
        }
        if let Some(sol) = got {
            let refs = solution_refs(&c2.ix, &sol).map_err(|id| bad("unknown-id", format!("snapshot solution contains unknown id {id}")))?;
            if let Err(inv) = valid(&u2, &problem, &refs, &[]) {
                return Err(bad(
                    "snapshot-solution-invalid-against-live",
                    format!("{}: {} (solution {:?})", inv.clause, inv.detail, refs.iter().map(|&s| u2.display_solvable(s)).collect::<Vec<_>>()),
                ));
            }
        }
        let _ = (StringId(0), HintDependenciesAvailable::None);
        Ok(labels)
    }
}

struct_property!(C16, "C16", "tape -> universe with sparse, non-contiguous ids in all id spaces (no favored/locked: not representable), exclusions, Unknown, missing packages, unions + generated seed sets (names, version sets, solvables) for DependencySnapshot::from_provider + 0..4 add_package_requirement calls ('*' or a display substring) + optional serde_json round trip. Oracles: (a) solving through the snapshot gives the verdict of the reference resolver over the LIVE tables (and of the live provider); (b) the snapshot's solution passes the C01 predicate against the live tables; (c) for every captured package SnapshotProvider::sort_candidates on the full candidate list and on generated sub-lists equals the live provider's order; (d) after each add_package_requirement the returned id differs from every captured and earlier added id and every captured version set (incl. the highest-numbered) still has its name, display and filter_candidates(.., false/true) answers; (e) the round-tripped snapshot has identical packages, solvables, version sets, unions and strings. Problems explicitly use the highest-numbered captured version set. Non-trivial: some id >= 128, ids not an initial segment, >=1 added requirement and the problem uses the max captured version set. Distinct = distinct hash of case.");

//! C01-C05: properties of a single `solve` call decided against the reference resolver
//! and the validity / truthfulness predicates.

use super::common::*;
use crate::gen::Params;
use crate::minimize::StructCase;
use crate::model::*;
use crate::oracle::*;
use crate::provider::Cancel;
use crate::reference::*;
use crate::run::*;
use crate::runner::*;
use crate::struct_property;
use crate::tape::Tape;
use crate::variants::*;
use std::rc::Rc;

pub fn label_search(l: &Labels, out: &mut Vec<&'static str>) {
    if l.learnt >= 1 {
        out.push("learnt>=1");
    }
    if l.learnt >= 2 {
        out.push("learnt>=2");
    }
    if l.restarts >= 1 {
        out.push("restart>=1");
    }
    if l.backjumps >= 1 {
        out.push("backjump>=1");
    }
    if l.decisions >= 3 {
        out.push("decisions>=3");
    }
    if l.decisions >= 6 {
        out.push("decisions>=6");
    }
    if l.learnt >= 4 {
        out.push("learnt>=4");
    }
    if l.learnt >= 8 {
        out.push("learnt>=8");
    }
    if l.learnt >= 16 {
        out.push("learnt>=16");
    }
}

// =============================================================================== C01

pub struct C01 {
    pub params: Params,
    pub stage: &'static str,
    pub async_weight: u32,
}

impl C01 {
    fn decode(&self, tape: &[u16]) -> StructCase {
        decode_case(tape, &self.params, self.async_weight)
    }

    fn check(&self, sc: &StructCase, c: &Case, rep: &mut CaseReport) {
        rep.evaluations = 1;
        let cfg = RunCfg {
            runtime: sc.rt.clone(),
            labels: true,
            render: false,
            ..Default::default()
        };
        let res = run_once(&c.u, &c.problem, &cfg);
        rep.labels.push(res.outcome.kind());
        label_search(&res.labels, &mut rep.labels);
        if res.polls > 300 {
            rep.labels.push("polls>300");
        }
        if res.polls > 1000 {
            rep.labels.push("polls>1000");
        }
        if res.polls > 4000 {
            rep.labels.push("polls>4000");
        }
        if res.polls > 16000 {
            rep.labels.push("polls>16000");
        }
        if matches!(cfg.runtime, Runtime::Async { .. }) {
            rep.labels.push("async");
        }
        if let Some(f) = abnormal(&res.outcome, Cancel::Never) {
            rep.failure = Some(f);
            return;
        }
        if let Outcome::Sat(sol) = &res.outcome {
            let refs = match solution_refs(&c.ix, sol) {
                Ok(r) => r,
                Err(id) => {
                    rep.failure = Some(Failure {
                        signature: "C01:unknown-id".into(),
                        detail: format!("solution contains solvable id {id} that the provider never mentioned"),
                    });
                    return;
                }
            };
            if let Err(inv) = valid(&c.u, &c.problem, &refs, &c.problem.soft) {
                rep.failure = Some(Failure {
                    signature: format!("C01:{}", inv.clause),
                    detail: format!(
                        "{}: {} | solution {:?}",
                        inv.clause,
                        inv.detail,
                        refs.iter().map(|&s| c.u.display_solvable(s)).collect::<Vec<_>>()
                    ),
                });
                return;
            }
            let hinted = refs
                .iter()
                .any(|s| !matches!(c.u.packages[s.pkg].hint, Hint::None));
            let soft_acc = refs.iter().any(|s| c.problem.soft.contains(s));
            size_labels(&c.u, &mut rep.labels);
            if hinted {
                rep.labels.push("hinted-in-solution");
            }
            if soft_acc {
                rep.labels.push("soft-accepted");
            }
            rep.nontrivial = refs.len() >= 2
                && (res.labels.learnt >= 1 || res.labels.restarts >= 1 || hinted || soft_acc);
        }
    }
}

struct_property!(C01, "C01", "tape -> universe (<=9 packages, <=5 candidates, sparse ids, unions, locks, exclusions, Unknown, missing, cycles, all hint modes) + problem (requirements, constraints, soft) + runtime (sync / async schedule); every Ok(S) is checked with the C01 validity predicate over the provider tables. Stage huge: 2..5 packages, the last with 2..5000 candidates (log-uniform). Non-trivial: Ok(S) with |S|>=2 and (>=1 learnt clause or >=1 restart or a hinted package in S or an accepted soft solvable). Distinct = distinct hash of the decoded case.", |s: &C01| if s.stage == "huge" { 60_000usize } else { 1600 });

// =============================================================================== C02

pub struct C02 {
    pub params: Params,
    pub stage: &'static str,
    pub variants: usize,
}

const ACTIVITY: [Option<(f32, f32)>; 4] = [None, Some((0.0, 1.0)), Some((10.0, 0.5)), Some((1.0, 0.0))];

impl C02 {
    fn decode(&self, tape: &[u16]) -> StructCase {
        let mut params = self.params.clone();
        params.max_soft = 0;
        decode_case(tape, &params, 0)
    }

    fn check(&self, sc: &StructCase, c: &Case, rep: &mut CaseReport) {
        let mut t = Tape::new(&sc.extra);
        let expected = match reference_verdict(c) {
            Exists::Budget => {
                rep.skipped = Some("reference-budget");
                return;
            }
            Exists::Yes(sol) => {
                if let Err(e) = valid(&c.u, &c.problem, &sol, &[]) {
                    panic!("HARNESS: reference produced an invalid solution: {e:?}");
                }
                true
            }
            Exists::No => false,
        };
        rep.labels.push(if expected { "ref-sat" } else { "ref-unsat" });
        for v in 0..self.variants {
            // variant 0 is the base case, sync, default activity
            let (u2, p2, rt, act) = if v == 0 {
                ((*c.u).clone(), c.problem.clone(), Runtime::Sync, None)
            } else {
                let (mut u2, p2) = if t.chance(1, 2) {
                    permute_listing(&mut t, &c.u, &c.problem)
                } else {
                    ((*c.u).clone(), c.problem.clone())
                };
                if t.chance(1, 2) {
                    u2 = permute_rank(&mut t, &u2);
                }
                if t.chance(1, 2) {
                    u2 = renumber(&mut t, &u2, &self.params);
                }
                u2 = match t.below(4) {
                    0 => u2,
                    1 => set_hints(&mut t, &u2, HintMode::None),
                    2 => set_hints(&mut t, &u2, HintMode::All),
                    _ => set_hints(&mut t, &u2, HintMode::Mixed),
                };
                let rt = gen_runtime(&mut t, 6);
                let act = ACTIVITY[t.below(ACTIVITY.len())];
                (u2, p2, rt, act)
            };
            if v > 0 {
                // harness self-check: the transformation must preserve the reference verdict
                let vc = Case {
                    ix: Index::new(&u2),
                    u: Rc::new(u2.clone()),
                    problem: p2.clone(),
                };
                match reference_verdict(&vc) {
                    Exists::Budget => continue,
                    Exists::Yes(_) if expected => {}
                    Exists::No if !expected => {}
                    other => panic!("HARNESS: variant transformation changed the reference verdict: {other:?}"),
                }
            }
            let u2 = Rc::new(u2);
            let cfg = RunCfg {
                runtime: rt.clone(),
                activity: act,
                labels: true,
                render: false,
                ..Default::default()
            };
            let res = run_once(&u2, &p2, &cfg);
            rep.evaluations += 1;
            if let Some(f) = abnormal(&res.outcome, Cancel::Never) {
                rep.failure = Some(Failure {
                    detail: format!(
                        "variant {v} ({rt:?}, activity {act:?}): {}\nvariant case:\n{}",
                        f.detail,
                        u2.describe(&p2)
                    ),
                    ..f
                });
                return;
            }
            let got = matches!(res.outcome, Outcome::Sat(_));
            if res.labels.learnt >= 2 || res.labels.restarts >= 1 || (!got && res.labels.learnt >= 1) {
                rep.nontrivial = true;
            }
            if v == 0 {
                label_search(&res.labels, &mut rep.labels);
            }
            if got != expected {
                rep.failure = Some(Failure {
                    signature: if got {
                        "C02:solution-but-reference-unsat".into()
                    } else {
                        "C02:unsolvable-but-solution-exists".into()
                    },
                    detail: format!(
                        "variant {v} ({rt:?}, activity {act:?}): resolvo says {}, reference says {}\nvariant case:\n{}",
                        if got { "Ok" } else { "Unsolvable" },
                        if expected { "a solution exists" } else { "no solution exists" },
                        u2.describe(&p2)
                    ),
                });
                return;
            }
            if let Outcome::Sat(sol) = &res.outcome {
                // an Ok that is not valid is also a wrong verdict
                let ix = Index::new(&u2);
                if let Ok(refs) = solution_refs(&ix, sol) {
                    if let Err(inv) = valid(&u2, &p2, &refs, &[]) {
                        rep.failure = Some(Failure {
                            signature: format!("C01:{}", inv.clause),
                            detail: format!("variant {v}: invalid solution: {} {}", inv.clause, inv.detail),
                        });
                        return;
                    }
                }
            }
        }
    }
}

struct_property!(C02, "C02", "tape -> conflict-heavy universe + hard problem; the verdict of resolvo is compared with an exhaustive reference search (exists a valid selection?) on the base case and on generated variants (permuted listing order, permuted preference order, renumbered sparse ids, hint modes None/All/Mixed, sync and async schedules, 4 activity parameter pairs). Non-trivial: some variant needed >=2 learnt clauses, or >=1 restart, or was unsat after >=1 learnt clause. Distinct = distinct hash of the base case.");

// =============================================================================== C03

pub struct C03 {
    pub params: Params,
    pub stage: &'static str,
}

impl C03 {
    fn decode(&self, tape: &[u16]) -> StructCase {
        decode_case(tape, &self.params, 4)
    }

    fn check(&self, sc: &StructCase, c: &Case, rep: &mut CaseReport) {
        rep.evaluations = 1;
        let cfg = RunCfg {
            runtime: sc.rt.clone(),
            labels: true,
            render: false,
            ..Default::default()
        };
        let res = run_once(&c.u, &c.problem, &cfg);
        rep.labels.push(res.outcome.kind());
        if let Some(f) = abnormal(&res.outcome, Cancel::Never) {
            rep.failure = Some(f);
            return;
        }
        if let Outcome::Unsat(d) = &res.outcome {
            label_search(&res.labels, &mut rep.labels);
            let kinds = conflict_edge_kinds(&d.graph);
            rep.nontrivial = res.labels.learnt >= 1 || d.graph.nodes.len() >= 6 || kinds >= 2;
            if d.graph.nodes.len() >= 6 {
                rep.labels.push("graph>=6");
            }
            if kinds >= 2 {
                rep.labels.push("edge-kinds>=2");
            }
            crate::oracle::DPLL_EXHAUSTED.with(|x| x.set(false));
            let checked = check_conflict_graph(&c.u, &c.ix, &c.problem, &d.graph);
            if crate::oracle::DPLL_EXHAUSTED.with(|x| x.get()) {
                rep.labels.push("graph-unsat-check-budget-exhausted");
            }
            if let Err(f) = checked {
                rep.failure = Some(Failure {
                    signature: format!("C03:{}", f.clause),
                    detail: format!("{}: {}\ngraph: {:?}", f.clause, f.detail, d.graph),
                });
            }
        }
    }
}

struct_property!(C03, "C03", "tape -> unsat-heavy universe + hard problem (+ hints, sync/async); for every Unsolvable result the public ConflictGraph is checked: every edge states a true fact about the provider tables, every node is reachable from root, and the facts in the graph alone (plus at-most-one per forbid component) are unsatisfiable (small DPLL). Non-trivial: conflict reached after >=1 learnt clause, or graph with >=6 nodes, or >=2 conflict edge kinds. Distinct = distinct hash of case.");

// =============================================================================== C04

pub struct C04 {
    pub params: Params,
    pub stage: &'static str,
    /// the provider's sort_candidates calls back into the SolverCache (dependencies of the
    /// candidates it ranks, candidates of the packages those mention), always asynchronously
    pub reentrant: bool,
}

impl C04 {
    fn decode(&self, tape: &[u16]) -> StructCase {
        decode_case(tape, &self.params, 4)
    }

    fn check(&self, sc: &StructCase, c: &Case, rep: &mut CaseReport) {
        rep.evaluations = 1;
        let cfg = RunCfg {
            runtime: if self.reentrant && matches!(sc.rt, Runtime::Sync) {
                Runtime::Async { policy: crate::sched::Policy::Lifo, immediate: vec![] }
            } else {
                sc.rt.clone()
            },
            labels: false,
            render: true,
            sort_probe: if !self.reentrant {
                crate::provider::SortProbe::Off
            } else if sc.extra.first().map_or(false, |v| v & 1 == 1) {
                crate::provider::SortProbe::DepsAbandon
            } else {
                crate::provider::SortProbe::Deps
            },
            ..Default::default()
        };
        // a quarter of the cases: the solver has been used before, for the first root
        // requirements of this problem alone (whatever that solve learnt, cached or left
        // behind must not make the next one panic or hang)
        let used = sc.extra.get(1).map_or(false, |v| v % 4 == 1) && !c.problem.reqs.is_empty();
        let res = if used {
            let mut session = Session::new(c.u.clone(), &cfg.runtime, None);
            session.provider().probe.set(cfg.sort_probe);
            let keep = 1 + sc.extra.get(2).copied().unwrap_or(0) as usize % c.problem.reqs.len();
            let warm = Problem {
                reqs: c.problem.reqs.iter().take(keep).cloned().collect(),
                constraints: vec![],
                soft: vec![],
            };
            let first = session.solve(&warm, Cancel::Never, false, true);
            rep.evaluations += 1;
            rep.labels.push("second-solve-on-a-used-solver");
            if abnormal(&first.outcome, Cancel::Never).is_some() {
                first
            } else {
                session.solve(&c.problem, Cancel::Never, false, true)
            }
        } else {
            run_once(&c.u, &c.problem, &cfg)
        };
        rep.labels.push(res.outcome.kind());
        if self.reentrant {
            rep.labels.push("re-entrant-sort");
        }
        let (nf, feats) = feature_count(&c.u, &c.problem);
        for f in feats {
            rep.labels.push(f);
        }
        if let Some(f) = abnormal(&res.outcome, Cancel::Never) {
            rep.failure = Some(f);
            return;
        }
        rep.nontrivial = nf >= 2
            && match &res.outcome {
                Outcome::Unsat(_) => true,
                Outcome::Sat(s) => s.len() >= 4,
                _ => false,
            };
    }
}

struct_property!(C04, "C04", "tape -> feature-interaction universe (hints x exclusions x locks x soft requirements x self-references x Unknown x missing x cycles) + problem + runtime; solve, Conflict::graph, graphviz (both simplify values) and display_user_friendly must not panic, must finish within the poll/step budget, async runs must not deadlock, and renderings stay under a quadratic bound in the conflict size; run in builds with and without debug assertions, tracing off; in a quarter of the cases on a solver that was used before for a sub-problem. Non-trivial: case combines >=2 of {hint, exclusion, lock, soft, self-ref, Unknown, missing, union, favored} and is unsat or has >= 4 solvables in the solution. Distinct = distinct hash of case.");

// =============================================================================== C05

pub struct C05 {
    pub params: Params,
    pub stage: &'static str,
}

impl C05 {
    fn decode(&self, tape: &[u16]) -> StructCase {
        decode_case(tape, &self.params, 3)
    }

    fn check(&self, sc: &StructCase, c: &Case, rep: &mut CaseReport) {
        rep.evaluations = 1;
        let cfg = RunCfg {
            runtime: sc.rt.clone(),
            labels: true,
            render: false,
            ..Default::default()
        };
        // a third of the cases: the problem is solved twice on one solver (everything the first
        // solve fetched - in whatever order an asynchronous provider answered - is in the
        // cache); the second answer is the one that is judged
        let twice = sc.extra.first().map_or(false, |v| v % 3 == 1);
        let mut session = Session::new(c.u.clone(), &cfg.runtime, None);
        let mut res = session.solve(&c.problem, Cancel::Never, true, false);
        if twice && !matches!(res.outcome, Outcome::Panic(_)) {
            rep.evaluations += 1;
            rep.labels.push("second-solve-on-the-same-solver");
            res = session.solve(&c.problem, Cancel::Never, true, false);
        }
        rep.labels.push(res.outcome.kind());
        label_search(&res.labels, &mut rep.labels);
        if let Some(f) = abnormal(&res.outcome, Cancel::Never) {
            rep.failure = Some(f);
            return;
        }
        if let Outcome::Sat(sol) = &res.outcome {
            let Ok(refs) = solution_refs(&c.ix, sol) else {
                rep.failure = Some(Failure {
                    signature: "C01:unknown-id".into(),
                    detail: "unknown id in solution".into(),
                });
                return;
            };
            let r = reach(&c.u, &c.problem, &refs, &c.problem.soft);
            let extra: Vec<SRef> = refs.iter().copied().filter(|s| !r.contains(s)).collect();
            rep.nontrivial = (res.labels.backjumps >= 1 || res.labels.restarts >= 1) && refs.len() >= 3;
            if !extra.is_empty() {
                rep.failure = Some(Failure {
                    signature: "C05:extraneous".into(),
                    detail: format!(
                        "solution {:?} contains unsupported solvables {:?}",
                        refs.iter().map(|&s| c.u.display_solvable(s)).collect::<Vec<_>>(),
                        extra.iter().map(|&s| c.u.display_solvable(s)).collect::<Vec<_>>()
                    ),
                });
            }
        }
    }
}

struct_property!(C05, "C05", "tape -> backtracking-heavy universe + problem (with soft requirements); for every Ok(S): S must be contained in the support closure reach(S) (from root requirements and accepted soft solvables through requirement edges whose satisfying candidate is in S). Non-trivial: >=1 backjump or restart and |S|>=3. Distinct = distinct hash of case.");

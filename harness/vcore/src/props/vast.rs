//! C11, stage `vast`: more independent requests than any internal 16-bit threshold.
//!
//! A root with 66 000 .. 72 000 requirements on as many packages (one candidate each, no
//! dependencies) is handed to the asynchronous solver; the harness scheduler completes nothing.
//! At the first point where the solver is blocked on the provider, `get_candidates` must have
//! been issued for EVERY one of those packages (they are all independent and all needed). The
//! run is stopped there (the observer ends it), so the quadratic decision loop over tens of
//! thousands of requirements is never entered.

use crate::model::*;
use crate::provider::{Call, Cancel};
use crate::run::*;
use crate::runner::{hash_of, CaseReport, Failure, Property};
use crate::sched::{Policy, Quiescent, ReqKind};
use crate::tape::Tape;
use std::rc::Rc;

pub struct C11Vast {
    pub stage: &'static str,
    pub min: usize,
    pub spread: usize,
}

impl C11Vast {
    fn decode(&self, tape: &[u16]) -> usize {
        let mut t = Tape::new(tape);
        self.min + t.below(self.spread.max(1))
    }
}

impl Property for C11Vast {
    fn id(&self) -> &'static str {
        "C11"
    }
    fn stage(&self) -> &'static str {
        self.stage
    }
    fn max_tape(&self) -> usize {
        6
    }
    fn shrink_budget(&self) -> usize {
        12
    }
    fn hang_secs(&self) -> u64 {
        900
    }
    fn rule(&self) -> String {
        "tape -> n in 66 000..72 000: a root with n requirements on n distinct single-candidate packages without dependencies, asynchronous solver, scheduler completes nothing. Oracle: at the first quiescent point (solver blocked on the provider) get_candidates has been issued for all n packages and all n requests are outstanding; the run is ended there. Non-trivial: every case (n > 65 536). Distinct = distinct n.".into()
    }
    fn describe(&self, tape: &[u16]) -> String {
        format!("vast root: {} independent requirements\n", self.decode(tape))
    }
    fn eval(&self, tape: &[u16]) -> CaseReport {
        let n = self.decode(tape);
        let mut rep = CaseReport { evaluations: 1, case_hash: hash_of(&n), nontrivial: n > 65_536, ..Default::default() };
        let mut u = Universe::default();
        let mut problem = Problem::default();
        for i in 0..n {
            u.packages.push(Package {
                name_id: i as u32,
                name: format!("p{i}"),
                missing: false,
                cands: vec![Cand { sid: i as u32, version: 1, deps: Deps::empty(), excluded: None }],
                sort_rank: vec![0],
                favored: None,
                locked: None,
                lock_gone: false,
                hint_unlisted: false,
                hint: Hint::None,
                unlisted: vec![],
            });
            u.vsets.push(VSet { id: i as u32, pkg: i, matches: vec![0] });
            problem.reqs.push(Req::Single(i));
        }
        let rt = Runtime::Async { policy: Policy::Fifo, immediate: vec![] };
        let mut session = Session::new(Rc::new(u), &rt, None);
        session.provider().two_step.set(false);
        let seen = Rc::new(std::cell::Cell::new(usize::MAX));
        if let Some(sched) = &session.sched {
            let seen = seen.clone();
            *sched.observer.borrow_mut() = Some(Box::new(move |q: &Quiescent| -> Result<(), String> {
                if q.index == 0 {
                    seen.set(q.outstanding.iter().filter(|(k, _)| *k == ReqKind::Candidates).count());
                }
                Err("vast: stop at the first quiescent point".into())
            }));
        }
        let res = session.solve(&problem, Cancel::Never, false, false);
        let issued = res.log.iter().filter(|c| matches!(c, Call::GetCandidates(_))).count();
        rep.labels.push("root-requirements>65536");
        let outstanding = seen.get();
        if outstanding == usize::MAX {
            rep.failure = Some(Failure {
                signature: "C11:vast-no-quiescent-point".into(),
                detail: format!("n={n}: solve ended with {} before the solver ever blocked on the provider", res.outcome.kind()),
            });
        } else if issued != n || outstanding != n {
            rep.failure = Some(Failure {
                signature: "C11:needed-request-not-issued".into(),
                detail: format!(
                    "root with {n} independent requirements: when the solver first blocked on the provider get_candidates had been issued for {issued} packages and {outstanding} requests were outstanding (all {n} are needed and none depends on another)"
                ),
            });
        }
        rep
    }
}

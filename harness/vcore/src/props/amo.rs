//! C15: at most one solvable per package for any candidate count and discovery order.

use super::common::*;
use crate::model::*;
use crate::provider::Cancel;
use crate::reference::*;
use crate::run::*;
use crate::runner::*;
use crate::tape::Tape;
use std::rc::Rc;

pub struct C15 {
    pub stage: &'static str,
    pub max_n: usize,
    /// evaluate all pairs when n <= this, otherwise `sample_pairs` generated pairs
    pub all_pairs_upto: usize,
    pub sample_pairs: usize,
    /// further reveal shapes (own tape layout, so the other stages' replay tapes keep their
    /// meaning): unions whose FIRST member is an empty version set of another package, the
    /// second requirement of a question phrased as such a union, and a chain whose head has
    /// a preferred candidate that selects a sibling before the question is revealed and is
    /// then backtracked over
    pub extended: bool,
    /// reveal unions get a further member that OVERLAPS the group's version set (shares some
    /// of its candidates and adds candidates of other groups), or repeats it under another
    /// id: the same candidate then occurs twice within one requirement
    pub overlap: bool,
}

pub struct Plan {
    pub u: Universe,
    pub n: usize,
    /// group index of each candidate of p in the reveal plan
    pub group_of: Vec<usize>,
    /// root requirements that reveal groups (unions with an always-satisfiable helper)
    pub reveal_reqs: Vec<Req>,
    /// singleton version set index for candidate i
    pub single: Vec<usize>,
    /// where in the root requirement list the pair requirements are inserted
    pub insert_at: usize,
    pub pairs: Vec<(usize, usize)>,
    /// ask every question through ONE solver instead of a fresh solver per question
    pub reuse: bool,
    /// late discovery: the questions' requirements are issued by a helper two levels down a
    /// dependency chain (package indices of c0, c1), so they are encoded after decisions
    pub chain: Option<(usize, usize)>,
    /// a preferred, hinted blocker candidate whose constrains admit only one group of p:
    /// the other candidates are already decided false when the chain reveals them
    pub blocker: Option<usize>,
    /// union index [empty set of x | {j}] per candidate, when questions are phrased that way
    pub single_u: Option<Vec<usize>>,
    pub empty_first: bool,
    pub decided_sibling: bool,
}

fn interesting_n(t: &mut Tape, max_n: usize) -> usize {
    // bias towards powers of two and their neighbours (helper-variable thresholds)
    let specials: Vec<usize> = [1usize, 2, 3, 4, 5, 7, 8, 9, 15, 16, 17, 31, 32, 33, 63, 64, 65, 127, 128, 129, 130]
        .into_iter()
        .filter(|&x| x <= max_n)
        .collect();
    if t.chance(2, 3) {
        specials[t.below(specials.len())]
    } else {
        1 + t.below(max_n)
    }
}

impl C15 {
    pub fn plan(&self, tape: &[u16]) -> Plan {
        let mut t = Tape::new(tape);
        let n = interesting_n(&mut t, self.max_n);
        let mut u = Universe::default();
        u.strings.push(Str {
            id: 0,
            text: "reason".into(),
        });
        // package 0: p with n candidates; package 1: helper "ok" with one candidate;
        // package 2: eager helper whose non-selected, hinted candidates mention subsets of p
        let listing = t.permutation(n);
        let mk = |v: u32| Cand {
            sid: 0,
            version: v,
            deps: Deps::empty(),
            excluded: None,
        };
        u.packages.push(Package {
            name_id: 0,
            name: "p".into(),
            missing: false,
            cands: listing.iter().map(|&i| mk(i as u32 + 1)).collect(),
            sort_rank: t.permutation(n),
            favored: None,
            locked: None,
            lock_gone: false,
            hint_unlisted: false,
            hint: if t.chance(1, 3) { Hint::All } else { Hint::None },
            unlisted: vec![],
        });
        u.packages.push(Package {
            name_id: 0,
            name: "ok".into(),
            missing: false,
            cands: vec![mk(1)],
            sort_rank: vec![0],
            favored: None,
            locked: None,
            lock_gone: false,
            hint_unlisted: false,
            hint: Hint::None,
            unlisted: vec![],
        });
        // reveal groups: a generated partition of the candidates, in generated order
        let n_groups = 1 + t.below(n.min(6));
        let group_of: Vec<usize> = (0..n).map(|_| t.below(n_groups)).collect();
        let mut reveal_reqs = vec![];
        let ok_vs = {
            u.vsets.push(VSet {
                id: 0,
                pkg: 1,
                matches: vec![0],
            });
            u.vsets.len() - 1
        };
        let mut eager_groups: Vec<usize> = vec![];
        let mut empty_first_unions: Vec<usize> = vec![];
        let order = t.permutation(n_groups);
        for &g in &order {
            let members: Vec<usize> = (0..n).filter(|&i| group_of[i] == g).collect();
            if members.is_empty() {
                continue;
            }
            match t.below(4) {
                0 => {} // not revealed up-front: only the pair/single requirements expose them
                1 => eager_groups.push(g),
                _ => {
                    u.vsets.push(VSet {
                        id: 0,
                        pkg: 0,
                        matches: members,
                    });
                    let vs = u.vsets.len() - 1;
                    // union member order: helper first or group first
                    let members = if t.chance(1, 2) { vec![ok_vs, vs] } else { vec![vs, ok_vs] };
                    if self.extended && t.chance(1, 2) {
                        empty_first_unions.push(u.unions.len());
                    }
                    u.unions.push(Union { id: 0, members });
                    reveal_reqs.push(Req::Union(u.unions.len() - 1));
                }
            }
        }
        if !eager_groups.is_empty() {
            // eager helper: candidate 0 is chosen (no deps); the others are hinted and require
            // a group of p OR the ok helper, so they are encoded without being selected
            let mut cands = vec![mk(1)];
            for (k, &g) in eager_groups.iter().enumerate() {
                let members: Vec<usize> = (0..n).filter(|&i| group_of[i] == g).collect();
                u.vsets.push(VSet {
                    id: 0,
                    pkg: 0,
                    matches: members,
                });
                let vs = u.vsets.len() - 1;
                u.unions.push(Union {
                    id: 0,
                    members: vec![vs, ok_vs],
                });
                let mut c = mk(k as u32 + 2);
                c.deps = Deps::Known {
                    reqs: vec![Req::Union(u.unions.len() - 1)],
                    constrains: vec![],
                };
                cands.push(c);
            }
            let nc = cands.len();
            u.packages.push(Package {
                name_id: 0,
                name: "eager".into(),
                missing: false,
                cands,
                sort_rank: (0..nc).collect(),
                favored: None,
                locked: None,
                lock_gone: false,
                hint_unlisted: false,
                hint: Hint::All,
                unlisted: vec![],
            });
            u.vsets.push(VSet {
                id: 0,
                pkg: 2,
                matches: (0..nc).collect(),
            });
            reveal_reqs.push(Req::Single(u.vsets.len() - 1));
        }
        let mut x_empty = None;
        if self.extended {
            // package x: one candidate, and a version set of it that matches nothing
            u.packages.push(Package {
                name_id: 0,
                name: "x".into(),
                missing: false,
                cands: vec![mk(1)],
                sort_rank: vec![0],
                favored: None,
                locked: None,
                lock_gone: false,
                hint_unlisted: false,
                hint: Hint::None,
                unlisted: vec![],
            });
            let xp = u.packages.len() - 1;
            u.vsets.push(VSet {
                id: 0,
                pkg: xp,
                matches: vec![],
            });
            let xe = u.vsets.len() - 1;
            for &ui in &empty_first_unions {
                u.unions[ui].members.insert(0, xe);
            }
            x_empty = Some(xe);
        }
        let mut single = vec![];
        for i in 0..n {
            u.vsets.push(VSet {
                id: 0,
                pkg: 0,
                matches: vec![i],
            });
            single.push(u.vsets.len() - 1);
        }
        let single_u = match x_empty {
            Some(xe) if t.chance(1, 2) => Some(
                (0..n)
                    .map(|i| {
                        u.unions.push(Union {
                            id: 0,
                            members: vec![xe, single[i]],
                        });
                        u.unions.len() - 1
                    })
                    .collect::<Vec<usize>>(),
            ),
            _ => None,
        };
        let insert_at = t.below(reveal_reqs.len() + 1);
        let mut reuse = t.chance(1, 2);
        let mut decided_sibling = false;
        let mk2 = |v: u32| Cand {
            sid: 0,
            version: v,
            deps: Deps::empty(),
            excluded: None,
        };
        // late discovery through a chain, optionally with a blocker
        let mut chain = None;
        let mut blocker = None;
        if t.chance(1, 3) {
            reuse = false; // the chain's dependencies differ per question
            if t.chance(2, 3) && n >= 2 {
                // blocker package: b=1 (preferred, hinted) constrains p to one group; b=2 is free
                let g = group_of[t.below(n)];
                let members: Vec<usize> = (0..n).filter(|&i| group_of[i] == g).collect();
                u.vsets.push(VSet {
                    id: 0,
                    pkg: 0,
                    matches: members,
                });
                let cvs = u.vsets.len() - 1;
                let mut b1 = mk2(1);
                b1.deps = Deps::Known {
                    reqs: vec![],
                    constrains: vec![cvs],
                };
                u.packages.push(Package {
                    name_id: 0,
                    name: "blocker".into(),
                    missing: false,
                    cands: vec![b1, mk2(2)],
                    sort_rank: vec![0, 1],
                    favored: None,
                    locked: None,
                    lock_gone: false,
                    hint_unlisted: false,
                    hint: Hint::All,
                    unlisted: vec![],
                });
                let bp = u.packages.len() - 1;
                u.vsets.push(VSet {
                    id: 0,
                    pkg: bp,
                    matches: vec![0, 1],
                });
                reveal_reqs.insert(0, Req::Single(u.vsets.len() - 1));
                blocker = Some(bp);
            }
            for name in ["c0", "c1"] {
                u.packages.push(Package {
                    name_id: 0,
                    name: name.into(),
                    missing: false,
                    cands: vec![mk2(1)],
                    sort_rank: vec![0],
                    favored: None,
                    locked: None,
                    lock_gone: false,
                    hint_unlisted: false,
                    hint: Hint::None,
                    unlisted: vec![],
                });
            }
            let c1 = u.packages.len() - 1;
            let c0 = c1 - 1;
            u.vsets.push(VSet {
                id: 0,
                pkg: c1,
                matches: vec![0],
            });
            let c1_vs = u.vsets.len() - 1;
            u.packages[c0].cands[0].deps = Deps::Known {
                reqs: vec![Req::Single(c1_vs)],
                constrains: vec![],
            };
            if self.extended && blocker.is_none() && t.chance(2, 3) {
                // the chain's head gets a PREFERRED second candidate that first needs some
                // candidate out of a generated subset of p: a sibling is selected by a
                // decision when c1 reveals the question, the conflict is analysed, and the
                // solver falls back to the plain head, where the question is still open
                decided_sibling = true;
                let mut subset: Vec<usize> = (0..n).filter(|_| t.chance(1, 2)).collect();
                if subset.is_empty() {
                    subset.push(t.below(n));
                }
                u.vsets.push(VSet {
                    id: 0,
                    pkg: 0,
                    matches: subset,
                });
                let sub_vs = u.vsets.len() - 1;
                let mut c = mk2(2);
                c.deps = Deps::Known {
                    reqs: if t.chance(1, 2) {
                        vec![Req::Single(sub_vs), Req::Single(c1_vs)]
                    } else {
                        vec![Req::Single(c1_vs), Req::Single(sub_vs)]
                    },
                    constrains: vec![],
                };
                u.packages[c0].cands.push(c);
                u.packages[c0].sort_rank = vec![1, 0];
            }
            u.vsets.push(VSet {
                id: 0,
                pkg: c0,
                matches: (0..u.packages[c0].cands.len()).collect(),
            });
            reveal_reqs.push(Req::Single(u.vsets.len() - 1));
            chain = Some((c0, c1));
        }
        if self.overlap {
            let reveal_unions: Vec<usize> = reveal_reqs
                .iter()
                .filter_map(|r| if let Req::Union(ui) = r { Some(*ui) } else { None })
                .collect();
            for ui in reveal_unions {
                let Some(pos) = u.unions[ui].members.iter().position(|&m| u.vsets[m].pkg == 0 && u.vsets[m].matches.len() < n) else {
                    continue;
                };
                if !t.chance(2, 3) {
                    continue;
                }
                let base = u.vsets[u.unions[ui].members[pos]].matches.clone();
                let mut m: Vec<usize> = base.iter().copied().filter(|_| t.chance(1, 2)).collect();
                if m.is_empty() {
                    m.push(base[t.below(base.len())]);
                }
                let outside: Vec<usize> = (0..n).filter(|i| !base.contains(i)).collect();
                if !t.chance(1, 4) {
                    for _ in 0..1 + t.below(3) {
                        if !outside.is_empty() {
                            m.push(outside[t.below(outside.len())]);
                        }
                    }
                }
                m.sort_unstable();
                m.dedup();
                u.vsets.push(VSet { id: 0, pkg: 0, matches: m });
                let vs = u.vsets.len() - 1;
                let at = if t.chance(3, 4) { pos + 1 } else { pos };
                u.unions[ui].members.insert(at, vs);
            }
        }
        if self.overlap {
            // the package may exclude one of its candidates or be locked to one (both are known
            // to the solver before any requirement reveals the candidate): a question that asks
            // for such a candidate alone then has no solution, which the reference confirms
            if n >= 2 && t.chance(1, 3) {
                let k = t.below(n);
                u.packages[0].cands[k].excluded = Some(0);
            }
            if n >= 2 && t.chance(1, 6) {
                u.packages[0].locked = Some(t.below(n));
            }
            // a union may also list the very same version set twice in a row (two equal specs
            // that were interned to one id): the meaning of the requirement does not change
            for ui in 0..u.unions.len() {
                if t.chance(1, 3) {
                    let first = u.unions[ui].members[0];
                    u.unions[ui].members.insert(0, first);
                }
            }
        }
        // ids: sparse for solvables (crossing chunk boundaries), dense elsewhere
        let params = crate::gen::Params::default();
        crate::gen::gen_ids(&mut t, &mut u, &params);
        let pairs: Vec<(usize, usize)> = if chain.is_some() && n > 11 {
            let mut v = vec![];
            for _ in 0..60 {
                let i = t.below(n);
                let j = t.below(n);
                if i != j {
                    v.push((i.min(j), i.max(j)));
                }
            }
            v
        } else if n <= self.all_pairs_upto {
            (0..n).flat_map(|i| (i + 1..n).map(move |j| (i, j))).collect()
        } else {
            let mut v = vec![];
            for _ in 0..self.sample_pairs {
                let i = t.below(n);
                let j = t.below(n);
                if i != j {
                    v.push((i.min(j), i.max(j)));
                }
            }
            v
        };
        Plan {
            u,
            n,
            group_of,
            reveal_reqs,
            single,
            insert_at,
            pairs,
            reuse,
            chain,
            blocker,
            single_u,
            empty_first: !empty_first_unions.is_empty(),
            decided_sibling,
        }
    }
}

impl Property for C15 {
    fn id(&self) -> &'static str {
        "C15"
    }
    fn stage(&self) -> &'static str {
        self.stage
    }
    fn max_tape(&self) -> usize {
        600
    }
    fn rule(&self) -> String {
        format!("tape -> candidate count n (1..{}, biased to 2^k-1, 2^k, 2^k+1) + listing order + preference order + REVEAL PLAN: a generated partition of the candidates into groups that the encoder meets, in generated order, through root union requirements (group | always-installable helper), through requirements of hinted-but-unselected helper candidates (eager encoding), or only through the final requirements (stage extended adds: reveal unions whose first member is an EMPTY version set of another package, questions whose last requirement is such a union, and a dependency chain whose preferred head first selects some sibling candidate by a decision, so that the question is revealed under that decision and survives the backtrack; stage overlap adds: reveal unions with a further member that overlaps the group's version set, so that a candidate occurs twice within one requirement); then for every pair i<j (all pairs when n<={}, else {} generated pairs) the problem 'root requires {{i}} and {{j}}' and for every i the problem 'root requires {{i}}' are solved - with a fresh solver per question or (generated) all through ONE reused solver - and compared with the reference resolver (pair => Unsolvable, single => Ok containing i). Non-trivial: n>=3 and the pair straddles two reveal groups. Distinct = distinct (plan hash, pair); evaluations = number of solver runs.", self.max_n, self.all_pairs_upto, self.sample_pairs)
    }
    fn describe(&self, tape: &[u16]) -> String {
        let p = self.plan(tape);
        format!(
            "n={} groups={:?} reveal_reqs={} insert_at={} pairs={} hint={:?} one_solver={}\n",
            p.n,
            p.group_of,
            p.reveal_reqs.len(),
            p.insert_at,
            p.pairs.len(),
            p.u.packages[0].hint,
            p.reuse
        )
    }
    fn eval(&self, tape: &[u16]) -> CaseReport {
        let plan = self.plan(tape);
        let u = Rc::new(plan.u.clone());
        let ix = Index::new(&u);
        let mut rep = CaseReport {
            case_hash: hash_of(&(&plan.u, plan.insert_at)),
            ..Default::default()
        };
        let n = plan.n;
        if n >= 3 {
            rep.labels.push("n>=3");
        }
        if n >= 33 {
            rep.labels.push("n>=33");
        }
        if n >= 65 {
            rep.labels.push("n>=65");
        }
        if plan.chain.is_some() {
            rep.labels.push("late-discovery-chain");
        }
        if plan.blocker.is_some() {
            rep.labels.push("revealed-while-false");
        }
        if plan.empty_first {
            rep.labels.push("union-with-empty-first-member");
        }
        if plan.single_u.is_some() {
            rep.labels.push("question-through-union");
        }
        if plan.decided_sibling {
            rep.labels.push("revealed-while-sibling-decided");
        }
        // (universe, problem) of one question
        // the last requirement of a question may be phrased as [empty set of x | {j}]
        let build = |cands: &[usize]| -> (Rc<Universe>, Problem) {
            let extra: Vec<Req> = cands
                .iter()
                .enumerate()
                .map(|(k, &i)| match &plan.single_u {
                    Some(su) if k + 1 == cands.len() => Req::Union(su[i]),
                    _ => Req::Single(plan.single[i]),
                })
                .collect();
            let mut reqs = plan.reveal_reqs.clone();
            match plan.chain {
                None => {
                    for (k, r) in extra.iter().enumerate() {
                        reqs.insert((plan.insert_at + k).min(reqs.len()), r.clone());
                    }
                    (
                        u.clone(),
                        Problem {
                            reqs,
                            constraints: vec![],
                            soft: vec![],
                        },
                    )
                }
                Some((_, c1)) => {
                    let mut u2 = (*u).clone();
                    u2.packages[c1].cands[0].deps = Deps::Known {
                        reqs: extra.clone(),
                        constrains: vec![],
                    };
                    (
                        Rc::new(u2),
                        Problem {
                            reqs,
                            constraints: vec![],
                            soft: vec![],
                        },
                    )
                }
            }
        };
        let mut shared = if plan.reuse {
            rep.labels.push("one-solver-for-all-questions");
            Some(Session::new(u.clone(), &Runtime::Sync, None))
        } else {
            None
        };
        let cfg = RunCfg {
            render: false,
            ..Default::default()
        };
        let mut ask = |q: &(Rc<Universe>, Problem)| -> StepResult {
            match shared.as_mut() {
                Some(s) => s.solve(&q.1, Cancel::Never, false, false),
                None => run_once(&q.0, &q.1, &cfg),
            }
        };
        // singles
        for i in 0..n {
            let q = build(&[i]);
            let res = ask(&q);
            let (uq, p) = (&q.0, &q.1);
            rep.evaluations += 1;
            if let Some(f) = abnormal(&res.outcome, Cancel::Never) {
                rep.failure = Some(Failure {
                    detail: format!("single({i}) of n={n}: {}", f.detail),
                    ..f
                });
                return rep;
            }
            let want = SRef {
                pkg: 0,
                idx: i,
                listed: true,
            };
            let ok = match &res.outcome {
                Outcome::Sat(sol) => solution_refs(&ix, sol)
                    .map(|r| r.contains(&want) && valid(uq, p, &r, &[]).is_ok())
                    .unwrap_or(false),
                _ => false,
            };
            if !ok {
                // consult the reference: the plan must make this satisfiable
                match exists_solution(uq, p, &[want], REF_BUDGET) {
                    Exists::Yes(_) => {
                        rep.failure = Some(Failure {
                            signature: "C15:single-candidate-not-selectable".into(),
                            detail: format!(
                                "n={n}: requiring exactly candidate {i} ({}) gave {}",
                                u.display_solvable(want),
                                res.outcome.kind()
                            ),
                        });
                        return rep;
                    }
                    Exists::No if self.overlap => {
                        // excluded / locked out: no solution contains it, and solve must say so
                        if let Outcome::Sat(sol) = &res.outcome {
                            rep.failure = Some(Failure {
                                signature: "C15:unselectable-candidate-selected".into(),
                                detail: format!(
                                    "n={n}: candidate {i} ({}) is excluded or locked out, requiring it gave the solution {:?}",
                                    u.display_solvable(want),
                                    solution_refs(&ix, sol).map(|r| r.iter().map(|&s| u.display_solvable(s)).collect::<Vec<_>>())
                                ),
                            });
                            return rep;
                        }
                        rep.labels.push("excluded-or-locked-out-candidate");
                    }
                    _ => panic!("HARNESS: C15 plan made single({i}) unsatisfiable"),
                }
            }
        }
        // pairs
        let mut straddling = 0u64;
        for &(i, j) in &plan.pairs {
            let q = build(&[i, j]);
            let res = ask(&q);
            rep.evaluations += 1;
            if let Some(f) = abnormal(&res.outcome, Cancel::Never) {
                rep.failure = Some(Failure {
                    detail: format!("pair({i},{j}) of n={n}: {}", f.detail),
                    ..f
                });
                return rep;
            }
            if plan.group_of[i] != plan.group_of[j] {
                straddling += 1;
            }
            if let Outcome::Sat(sol) = &res.outcome {
                rep.failure = Some(Failure {
                    signature: "C15:two-candidates-of-one-package".into(),
                    detail: format!(
                        "n={n}: requiring candidates {i} and {j} of the same package was solved: {:?}",
                        solution_refs(&ix, sol).map(|r| r.iter().map(|&s| u.display_solvable(s)).collect::<Vec<_>>())
                    ),
                });
                return rep;
            }
        }
        rep.nontrivial = n >= 3 && straddling > 0;
        if straddling > 0 {
            rep.labels.push("straddling-pair");
        }
        // count distinct non-trivial (plan, pair) combinations through the label histogram
        rep
    }
}

// =============================================================================== C15, stage giant

/// One package with more than 65 536 candidates, all revealed (and so registered with the
/// at-most-one tracker) through one "any version" requirement in preference order. The
/// questions are pairs whose REGISTRATION positions differ by a power of two, 2^0 .. 2^16:
/// the helper-variable encoding gives every registered candidate a binary code, and two
/// codes that differ only in a high bit are where a narrowing or an off-by-one in the bit
/// count would let two candidates of the package coexist.
pub struct C15Giant {
    pub stage: &'static str,
    pub extra_max: usize,
}

impl C15Giant {
    fn decode(&self, tape: &[u16]) -> (usize, bool, Vec<usize>) {
        let mut t = Tape::new(tape);
        let n = 65_536 + 1 + t.below(self.extra_max.max(1));
        let reversed = t.chance(1, 2);
        // one base position per power of two
        let bases: Vec<usize> = (0..=16usize)
            .map(|m| {
                let room = n - (1usize << m);
                t.below(room.min(4096))
            })
            .collect();
        (n, reversed, bases)
    }
}

impl Property for C15Giant {
    fn id(&self) -> &'static str {
        "C15"
    }
    fn stage(&self) -> &'static str {
        self.stage
    }
    fn max_tape(&self) -> usize {
        24
    }
    fn shrink_budget(&self) -> usize {
        12
    }
    fn rule(&self) -> String {
        "tape -> one package with 65537..66100 candidates, preference order as listed or reversed; root requires 'any version' (all candidates are registered with the at-most-one tracker in preference order) plus two singleton requirements on the candidates at registration positions a and a + 2^m, for every m = 0..16 and a generated a: each of the 17 problems must be Unsolvable; and requiring one of them alone must give exactly that candidate. Non-trivial: always (n > 65536). Distinct = distinct (n, order, positions).".into()
    }
    fn describe(&self, tape: &[u16]) -> String {
        let (n, rev, bases) = self.decode(tape);
        format!("n={n} preference order reversed={rev} base positions {bases:?}\n")
    }
    fn eval(&self, tape: &[u16]) -> CaseReport {
        let (n, rev, bases) = self.decode(tape);
        let mut rep = CaseReport {
            case_hash: hash_of(&(n, rev, &bases)),
            nontrivial: true,
            ..Default::default()
        };
        let mut u = Universe::default();
        u.strings.push(Str { id: 0, text: "reason".into() });
        u.packages.push(Package {
            name_id: 0,
            name: "p".into(),
            missing: false,
            cands: (0..n)
                .map(|i| Cand { sid: i as u32, version: i as u32 + 1, deps: Deps::empty(), excluded: None })
                .collect(),
            sort_rank: if rev { (0..n).rev().collect() } else { (0..n).collect() },
            favored: None,
            locked: None,
            lock_gone: false,
            hint_unlisted: false,
            hint: Hint::None,
            unlisted: vec![],
        });
        u.vsets.push(VSet { id: 0, pkg: 0, matches: (0..n).collect() });
        let rank = u.packages[0].sort_rank.clone();
        let mut questions: Vec<(usize, usize, usize)> = vec![];
        for (m, &a) in bases.iter().enumerate() {
            let (i, j) = (rank[a], rank[a + (1usize << m)]);
            u.vsets.push(VSet { id: 0, pkg: 0, matches: vec![i] });
            let vi = u.vsets.len() - 1;
            u.vsets.push(VSet { id: 0, pkg: 0, matches: vec![j] });
            let vj = u.vsets.len() - 1;
            questions.push((m, vi, vj));
        }
        for (k, v) in u.vsets.iter_mut().enumerate() {
            v.id = k as u32;
        }
        let u = Rc::new(u);
        let cfg = RunCfg { render: false, ..Default::default() };
        for (m, vi, vj) in questions {
            let pair = Problem { reqs: vec![Req::Single(0), Req::Single(vi), Req::Single(vj)], constraints: vec![], soft: vec![] };
            let res = run_once(&u, &pair, &cfg);
            rep.evaluations += 1;
            if let Some(f) = abnormal(&res.outcome, Cancel::Never) {
                rep.failure = Some(f);
                return rep;
            }
            if let Outcome::Sat(sol) = &res.outcome {
                rep.failure = Some(Failure {
                    signature: "C15:two-candidates-of-one-package".into(),
                    detail: format!(
                        "n={n}: the candidates registered at positions {} and {} (2^{m} apart) were required together and the problem was solved: solvable ids {:?}",
                        bases[m],
                        bases[m] + (1usize << m),
                        sol
                    ),
                });
                return rep;
            }
            if m % 8 == 0 {
                // and one of them alone is selectable
                let single = Problem { reqs: vec![Req::Single(0), Req::Single(vj)], constraints: vec![], soft: vec![] };
                let res = run_once(&u, &single, &cfg);
                rep.evaluations += 1;
                let want = u.vsets[vj].matches[0] as u32;
                match &res.outcome {
                    Outcome::Sat(sol) if sol == &vec![want] => {}
                    other => {
                        rep.failure = Some(abnormal(other, Cancel::Never).unwrap_or(Failure {
                            signature: "C15:single-candidate-not-selectable".into(),
                            detail: format!("n={n}: requiring candidate id {want} alone gave {} {:?}", other.kind(), if let Outcome::Sat(s) = other { s.clone() } else { vec![] }),
                        }));
                        return rep;
                    }
                }
            }
        }
        rep.labels.push("n>65536");
        rep
    }
}

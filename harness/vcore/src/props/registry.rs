//! Which stages make up each property's check, and how many cases each tier runs.

use super::amo::*;
use super::asyncp::*;
use super::cachesnap::*;
use super::containers::*;
use super::deep::C04Deep;
use super::vast::C11Vast;
use super::heavy::C14Heavy;
use super::ffi::C17;
use super::more::*;
use super::solve::*;
use crate::gen::Params;
use crate::runner::{Property, Tier};

#[derive(Clone, Copy, Debug, PartialEq, Eq)]
pub enum Profile {
    Release,
    Debug,
    /// release build, evaluated in a child process: the death of the child (stack overflow,
    /// abort) is observed by the parent and attributed to the case that was running
    Isolated,
    /// the same with the debug-assertions binary as the child
    IsolatedDebug,
}

pub struct Stage {
    pub prop: Box<dyn Property>,
    pub quick_cases: u64,
    pub thorough_cases: u64,
    pub profile: Profile,
}

impl Stage {
    pub fn cases(&self, tier: Tier) -> u64 {
        match tier {
            Tier::Quick => self.quick_cases,
            Tier::Thorough => self.thorough_cases,
        }
    }
}

/// Case counts are fixed work, not time quotas. `base` is the number of cases that takes
/// roughly half a second on 16 cores; the quick tier runs 20x that, the thorough tier a
/// further 16x (a zero `thorough` / `quick` marker disables the stage for that tier).
const QUICK_SCALE: u64 = 20;
const THOROUGH_SCALE: u64 = 16;

fn st(prop: impl Property + 'static, quick: u64, thorough: u64, profile: Profile) -> Stage {
    let base = if quick > 0 { quick } else { thorough / 20 };
    Stage {
        prop: Box::new(prop),
        quick_cases: if quick > 0 { base * QUICK_SCALE } else { 0 },
        thorough_cases: if thorough > 0 { base * QUICK_SCALE * THOROUGH_SCALE } else { 0 },
        profile,
    }
}

/// The same with a stage-specific thorough multiplier (cheap stages can afford more).
/// Explicit case counts (stages whose single cases cost tens of seconds).
fn st_n(prop: impl Property + 'static, quick_cases: u64, thorough_cases: u64, profile: Profile) -> Stage {
    Stage {
        prop: Box::new(prop),
        quick_cases,
        thorough_cases,
        profile,
    }
}

fn st_x(prop: impl Property + 'static, quick: u64, thorough_scale: u64, profile: Profile) -> Stage {
    Stage {
        prop: Box::new(prop),
        quick_cases: quick * QUICK_SCALE,
        thorough_cases: quick * QUICK_SCALE * thorough_scale,
        profile,
    }
}

/// Stages that take part in the coverage-guided campaigns of the thorough tier: in-process,
/// and cheap per input (the constructed big stages cost up to seconds per case).
pub fn fuzzable(s: &Stage) -> bool {
    s.profile == Profile::Release
        && ![
            "wide", "huge", "far-ids", "wide-root", "expensive-soft", "long", "bulk", "bulk-fat", "deep-chain", "many-soft", "giant", "vast", "exhaustive", "all-indices", "asan",
        ]
        .contains(&s.prop.stage())
}

pub fn level_of(id: &str) -> &'static str {
    match id {
        "C12" => "fault_enumeration",
        _ => "exploration",
    }
}

pub fn stages(id: &str) -> Vec<Stage> {
    use Profile::*;
    match id {
        "C01" => vec![
            st(C01 { params: Params::conflict_heavy().with_soft(3, 150), stage: "release", async_weight: 3 }, 20_000, 1_000_000, Release),
            st(C01 { params: Params::default().with_soft(3, 150), stage: "release-rich", async_weight: 3 }, 10_000, 500_000, Release),
            st(C01 { params: Params::conflict_heavy().with_soft(3, 150), stage: "debug", async_weight: 3 }, 6_000, 300_000, Debug),
            st(C01 { params: Params::huge_package(5000).with_soft(2, 100), stage: "huge", async_weight: 3 }, 150, 3_000, Release),
            st(C01 { params: Params::default().with_soft(3, 150).with_far_ids(600), stage: "far-ids", async_weight: 3 }, 300, 6_000, Release),
        ],
        "C02" => vec![
            st(C02 { params: Params::conflict_heavy().env_override(), stage: "main", variants: 4 }, 15_000, 600_000, Release),
            st(C02 { params: Params::assertion_heavy(), stage: "assertions", variants: 3 }, 10_000, 400_000, Release),
            st(C02 { params: Params::deep_conflict(), stage: "deep", variants: 2 }, 4_000, 160_000, Release),
            st_x(C04Deep { id: "C02", stage: "deep-chain", max_depth: 16_384, max_soft: 70_000, only_soft: false }, 2, 8, Isolated),
        ],
        "C03" => vec![
            st(C03 { params: Params::conflict_heavy().with_big_unions(100), stage: "main" }, 20_000, 800_000, Release),
            st(C03 { params: Params::deep_conflict().env_override(), stage: "deep" }, 20_000, 800_000, Release),
        ],
        "C04" => vec![
            st(C04 { params: Params::default().hint_heavy().with_soft(4, 250), stage: "release", reentrant: false }, 20_000, 800_000, Release),
            st(C04 { params: Params::default().hint_heavy().with_soft(4, 250), stage: "debug", reentrant: false }, 20_000, 800_000, Debug),
            st(C04 { params: Params::cyclic(), stage: "cycles", reentrant: false }, 20_000, 800_000, Release),
            st(C04 { params: Params::default().hint_heavy().with_soft(2, 150), stage: "reentrant-sort", reentrant: true }, 6_000, 240_000, Release),
            st(C04 { params: Params::default().hint_heavy().with_soft(2, 150), stage: "reentrant-sort-debug", reentrant: true }, 3_000, 120_000, Debug),
            st(C04 { params: Params::default().hint_heavy().with_soft(4, 250).with_far_ids(600), stage: "far-ids", reentrant: false }, 300, 6_000, Release),
            st(C04 { params: Params::huge_package(3000).with_soft(2, 100), stage: "huge", reentrant: false }, 100, 2_000, Release),
            st_x(C04Deep { id: "C04", stage: "deep-chain", max_depth: 16_384, max_soft: 70_000, only_soft: false }, 3, 8, Isolated),
            st_x(C04Deep { id: "C04", stage: "deep-chain-debug", max_depth: 6_000, max_soft: 70_000, only_soft: false }, 2, 8, IsolatedDebug),
        ],
        "C05" => vec![
            st(C05 { params: Params::conflict_heavy().with_soft(2, 100), stage: "main" }, 60_000, 1_500_000, Release),
            st(C05 { params: Params::deep_conflict().with_soft(3, 100), stage: "deep" }, 10_000, 400_000, Release),
        ],
        "C06" => vec![
            st(C06 { params: Params::conflict_heavy(), stage: "main", repeats: 4 }, 6_000, 200_000, Release),
            st(C06 { params: Params::default().with_soft(2, 150).with_big_unions(60), stage: "rich", repeats: 4 }, 4_000, 150_000, Release),
            st(C06 { params: Params::huge_package(400).with_soft(2, 100), stage: "huge", repeats: 3 }, 200, 4_000, Release),
        ],
        "C07" => vec![
            st(C07 { params: Params::default().with_big_unions(40), stage: "main" }, 20_000, 800_000, Release),
            st(C07 { params: Params { max_pkgs: 20, min_pkgs: 8, ..Params::default() }, stage: "large" }, 5_000, 200_000, Release),
            st(C07 { params: Params { min_pkgs: 100, max_pkgs: 160, max_cands: 4, max_reqs: 2, max_constrains: 1, min_root_reqs: 20, max_root_reqs: 60, ..Params::default() }, stage: "wide" }, 300, 6_000, Release),
            st(C07 { params: Params::huge_package(6000), stage: "huge" }, 150, 3_000, Release),
        ],
        "C08" => vec![
            st(C08 { params: Params::conflict_heavy(), stage: "main", constructed: false }, 20_000, 800_000, Release),
            st(C08 { params: Params { max_pkgs: 10, min_pkgs: 4, max_cands: 5, ..Params::default() }, stage: "constructed", constructed: true }, 15_000, 600_000, Release),
        ],
        "C09" => vec![
            st(C09 { params: Params::conflict_heavy().with_soft(2, 100), stage: "general", conflict_free: false }, 15_000, 600_000, Release),
            st(C09 { params: Params::default(), stage: "conflict-free", conflict_free: true }, 15_000, 600_000, Release),
        ],
        "C10" => vec![
            st(C10 { params: Params::conflict_heavy().with_soft(2, 100).with_big_unions(150), stage: "sampled", exhaustive: false, max_schedules: 0, reentrant_sort: false }, 4_000, 150_000, Release),
            st(C10 { params: Params::default().with_soft(2, 100), stage: "reentrant-sort", exhaustive: false, max_schedules: 0, reentrant_sort: true }, 3_000, 100_000, Release),
            st(C10 { params: Params { min_pkgs: 2, max_pkgs: 4, max_cands: 3, max_reqs: 2, min_root_reqs: 1, max_root_reqs: 2, ..Params::conflict_heavy() }, stage: "exhaustive", exhaustive: true, max_schedules: 3000, reentrant_sort: false }, 90, 3_000, Release),
        ],
        "C11" => vec![
            st(C11 { params: Params::fanout().with_soft(2, 150), stage: "main" }, 15_000, 500_000, Release),
            st(C11 { params: Params::wide(), stage: "wide" }, 400, 8_000, Release),
            st(C11 { params: Params::huge_package(3000).hint_heavy(), stage: "huge" }, 20, 400, Release),
            st_n(C11Vast { stage: "vast", min: 66_000, spread: 6_000 }, 2, 12, Release),
        ],
        "C12" => vec![
            st_n(C12 { params: Params::conflict_heavy().with_soft(2, 100).with_big_unions(150).with_giant_unions(12), stage: "main", max_indices: 48, conflict_free: false }, 30_000, 120_000, Release),
            st(C12 { params: Params::conflict_heavy().with_soft(2, 100), stage: "all-indices", max_indices: 0, conflict_free: false }, 0, 40_000, Release),
            st(C12 { params: Params::wide_root(), stage: "wide-root", max_indices: 64, conflict_free: true }, 3, 60, Release),
        ],
        "C13" => vec![
            st(C13 { params: Params::conflict_heavy().with_soft(2, 100), stage: "main" }, 10_000, 400_000, Release),
            st(C13 { params: Params::default().hint_heavy().with_soft(2, 100), stage: "rich" }, 5_000, 200_000, Release),
            st(C13 { params: Params::deep_conflict().with_soft(2, 100), stage: "deep" }, 3_000, 100_000, Release),
            st(C13 { params: Params { min_pkgs: 100, max_pkgs: 170, max_cands: 3, max_reqs: 2, max_constrains: 1, min_root_reqs: 8, max_root_reqs: 40, tail_random: true, ..Params::default() }, stage: "wide" }, 100, 2_000, Release),
        ],
        "C14" => vec![
            st(C14 { params: Params::conflict_heavy().with_soft(5, 200), stage: "general", conflict_free: false }, 15_000, 600_000, Release),
            st(C14 { params: Params::default(), stage: "conflict-free", conflict_free: true }, 15_000, 600_000, Release),
            st(C14Heavy { stage: "expensive-soft", max_holes: 9 }, 8, 160, Release),
            st_x(C04Deep { id: "C14", stage: "many-soft", max_depth: 4_096, max_soft: 70_000, only_soft: true }, 1, 8, Isolated),
        ],
        "C15" => vec![
            st_x(C15 { stage: "small", max_n: 33, all_pairs_upto: 33, sample_pairs: 0, extended: false, overlap: false }, 300, 128, Release),
            st_x(C15 { stage: "large", max_n: 130, all_pairs_upto: 64, sample_pairs: 600, extended: false, overlap: false }, 40, 128, Release),
            st_x(C15 { stage: "extended", max_n: 20, all_pairs_upto: 20, sample_pairs: 0, extended: true, overlap: false }, 1_000, 128, Release),
            st_x(C15 { stage: "overlap", max_n: 20, all_pairs_upto: 20, sample_pairs: 0, extended: true, overlap: true }, 600, 128, Release),
            st_n(C15Giant { stage: "giant", extra_max: 560 }, 8, 96, Release),
        ],
        "C16" => vec![
            st(C16 { params: Params::default(), stage: "main" }, 8_000, 300_000, Release),
            st(C16 { params: Params::conflict_heavy(), stage: "deep" }, 3_000, 100_000, Release),
        ],
        "C20" => vec![
            st(C20 { params: Params::default().hint_heavy().with_big_unions(60), stage: "main", max_ops: 40 }, 10_000, 400_000, Release),
            st(C20 { params: Params::default().hint_heavy().with_far_ids(700), stage: "far-ids", max_ops: 40 }, 300, 6_000, Release),
        ],
        "C17" => vec![
            st(C17 { id: "C17", stage: "solve", kind: "solve", max_tape: 900 }, 400, 8_000, Release),
            st(C17 { id: "C17", stage: "cpp-containers", kind: "cpp", max_tape: 260 }, 2_000, 40_000, Release),
            st(C17 { id: "C17", stage: "rust-containers", kind: "rust", max_tape: 260 }, 2_000, 40_000, Release),
        ],
        "C18" => vec![
            st(C18 { stage: "main", max_ops: 250, fat: false, bulk: 0 }, 4_000, 150_000, Release),
            st(C18 { stage: "fat", max_ops: 250, fat: true, bulk: 0 }, 3_000, 100_000, Release),
            st(C18 { stage: "bulk", max_ops: 120, fat: false, bulk: 12_000 }, 150, 3_000, Isolated),
            st(C18 { stage: "bulk-fat", max_ops: 120, fat: true, bulk: 6_000 }, 50, 1_000, Isolated),
            st(C17 { id: "C18", stage: "asan", kind: "c18", max_tape: 1500 }, 0, 10_000, Release),
        ],
        "C19" => vec![
            st(C19 { stage: "main", max_ops: 60, long: false }, 40_000, 2_000_000, Release),
            st(C19 { stage: "long", max_ops: 1500, long: true }, 400, 8_000, Release),
            st(C19 { stage: "debug", max_ops: 60, long: false }, 10_000, 300_000, Debug),
            st(C17 { id: "C19", stage: "asan", kind: "c19", max_tape: 700 }, 0, 40_000, Release),
        ],
        _ => vec![],
    }
}

pub const ALL_IDS: [&str; 20] = [
    "C01", "C02", "C03", "C04", "C05", "C06", "C07", "C08", "C09", "C10", "C11", "C12", "C13", "C14", "C15", "C16",
    "C17", "C18", "C19", "C20",
];

//! C19 (Mapping vs BTreeMap), C18 (Pool interning with held references).

use crate::runner::*;
use crate::tape::Tape;
use resolvo::utils::{Pool, VersionSet};
use resolvo::{Mapping, NameId, SolvableId, StringId, VersionSetId, VersionSetUnionId};
use std::collections::{BTreeMap, HashMap};

// =============================================================================== C19

pub struct C19 {
    pub stage: &'static str,
    pub max_ops: usize,
}

#[derive(Clone, Debug)]
pub enum MOp {
    Insert(u32, u32),
    Unset(u32),
    Get(u32),
    GetMut(u32, u32),
    Iter,
    Serde,
}

#[derive(Clone, Debug)]
pub struct MHistory {
    pub with_capacity: Option<usize>,
    pub ops: Vec<MOp>,
}

impl C19 {
    pub fn decode(&self, tape: &[u16]) -> MHistory {
        let mut t = Tape::new(tape);
        let with_capacity = match t.below(4) {
            0 => None,
            1 => Some(0),
            2 => Some(1 + t.below(128)),
            _ => Some(100 + t.below(500)),
        };
        // id distribution
        let mode = t.below(5);
        let offset = t.below(300) as u32;
        let mut gen_id = |t: &mut Tape| -> u32 {
            match mode {
                0 => t.below(12) as u32,                  // dense from 0
                1 => offset + t.below(12) as u32,         // dense from an offset
                2 => t.below(1000) as u32,                // sparse
                3 => [0u32, 1, 127, 128, 129, 255, 256, 257, 383, 384, 640][t.below(11)], // chunk edges
                _ => {
                    if t.chance(1, 4) {
                        500 + t.below(300) as u32
                    } else {
                        t.below(6) as u32
                    }
                }
            }
        };
        let n = 1 + t.below(self.max_ops);
        let mut ops = vec![];
        for _ in 0..n {
            let op = match t.weighted(&[6, 3, 2, 2, 2, 1]) {
                0 => MOp::Insert(gen_id(&mut t), t.next() as u32),
                1 => MOp::Unset(gen_id(&mut t)),
                2 => MOp::Get(gen_id(&mut t)),
                3 => MOp::GetMut(gen_id(&mut t), t.next() as u32),
                4 => MOp::Iter,
                _ => MOp::Serde,
            };
            ops.push(op);
        }
        ops.push(MOp::Iter);
        ops.push(MOp::Serde);
        MHistory { with_capacity, ops }
    }
}

fn mapping_pairs(m: &Mapping<NameId, u32>) -> Vec<(u32, u32)> {
    m.iter().map(|(k, v)| (k.0, *v)).collect()
}

fn check_mapping(m: &Mapping<NameId, u32>, model: &BTreeMap<u32, u32>, ctx: &str) -> Result<(), Failure> {
    if m.len() != model.len() {
        return Err(Failure {
            signature: "C19:len-mismatch".into(),
            detail: format!("{ctx}: len() = {} but the reference map holds {} entries", m.len(), model.len()),
        });
    }
    if m.is_empty() != model.is_empty() {
        return Err(Failure {
            signature: "C19:is_empty-mismatch".into(),
            detail: format!("{ctx}: is_empty() = {}", m.is_empty()),
        });
    }
    let got = mapping_pairs(m);
    let want: Vec<(u32, u32)> = model.iter().map(|(k, v)| (*k, *v)).collect();
    if got != want {
        return Err(Failure {
            signature: "C19:iter-mismatch".into(),
            detail: format!("{ctx}: iter() yields {got:?}, reference map holds {want:?}"),
        });
    }
    for (k, v) in model {
        if m.get(NameId(*k)) != Some(v) {
            return Err(Failure {
                signature: "C19:get-mismatch".into(),
                detail: format!("{ctx}: get({k}) = {:?}, expected {v}", m.get(NameId(*k))),
            });
        }
    }
    Ok(())
}

impl Property for C19 {
    fn id(&self) -> &'static str {
        "C19"
    }
    fn stage(&self) -> &'static str {
        self.stage
    }
    fn max_tape(&self) -> usize {
        700
    }
    fn rule(&self) -> String {
        "tape -> construction (default / with_capacity(n)) + id distribution (dense from 0, dense from an offset, sparse below 1000, chunk-edge ids 127/128/129/255/256/.., mostly-dense with a few high ids) + history of insert / unset / get / get_mut / iter / serde round trip operations on Mapping<NameId,u32>, interpreted against a BTreeMap reference: after every operation the returned previous value, get, len and is_empty agree; on iter operations iter() must yield exactly the reference pairs in ascending id order; on serde operations from_value(to_value(m)) must hold the same pairs. Non-trivial: the stored ids are not an initial segment of the naturals, or some id >= 128, or an unset happened. Distinct = distinct hash of the history.".into()
    }
    fn describe(&self, tape: &[u16]) -> String {
        format!("{:?}\n", self.decode(tape))
    }
    fn eval(&self, tape: &[u16]) -> CaseReport {
        let h = self.decode(tape);
        let mut rep = CaseReport {
            evaluations: 1,
            case_hash: hash_of(&format!("{h:?}")),
            ..Default::default()
        };
        let res = crate::run::guarded(|| -> Result<(bool, bool, bool), Failure> {
            let mut m: Mapping<NameId, u32> = match h.with_capacity {
                None => Mapping::default(),
                Some(n) => Mapping::with_capacity(n),
            };
            let mut model: BTreeMap<u32, u32> = BTreeMap::new();
            let (mut sparse, mut high, mut unset) = (false, false, false);
            for (i, op) in h.ops.iter().enumerate() {
                let ctx = format!("after op #{i} {op:?}");
                match op {
                    MOp::Insert(k, v) => {
                        let a = m.insert(NameId(*k), *v);
                        let b = model.insert(*k, *v);
                        if a != b {
                            return Err(Failure {
                                signature: "C19:insert-return-mismatch".into(),
                                detail: format!("{ctx}: returned {a:?}, expected {b:?}"),
                            });
                        }
                    }
                    MOp::Unset(k) => {
                        let a = m.unset(NameId(*k));
                        let b = model.remove(k);
                        if b.is_some() {
                            unset = true;
                        }
                        if a != b {
                            return Err(Failure {
                                signature: "C19:unset-return-mismatch".into(),
                                detail: format!("{ctx}: returned {a:?}, expected {b:?}"),
                            });
                        }
                    }
                    MOp::Get(k) => {
                        if m.get(NameId(*k)) != model.get(k) {
                            return Err(Failure {
                                signature: "C19:get-mismatch".into(),
                                detail: format!("{ctx}: get = {:?}, expected {:?}", m.get(NameId(*k)), model.get(k)),
                            });
                        }
                    }
                    MOp::GetMut(k, v) => {
                        let a = m.get_mut(NameId(*k));
                        let b = model.get_mut(k);
                        match (a, b) {
                            (Some(a), Some(b)) => {
                                *a = *v;
                                *b = *v;
                            }
                            (None, None) => {}
                            (a, b) => {
                                return Err(Failure {
                                    signature: "C19:get_mut-mismatch".into(),
                                    detail: format!("{ctx}: get_mut = {a:?}, expected {b:?}"),
                                })
                            }
                        }
                    }
                    MOp::Iter => check_mapping(&m, &model, &ctx)?,
                    MOp::Serde => {
                        let json = serde_json::to_value(&m).map_err(|e| Failure {
                            signature: "C19:serde-error".into(),
                            detail: format!("{ctx}: serialize failed: {e}"),
                        })?;
                        let back: Mapping<NameId, u32> = serde_json::from_value(json.clone()).map_err(|e| Failure {
                            signature: "C19:serde-error".into(),
                            detail: format!("{ctx}: deserialize failed: {e} for {json}"),
                        })?;
                        check_mapping(&back, &model, &format!("{ctx} (deserialized copy of {json})")).map_err(|f| Failure {
                            signature: f.signature.replace("C19:", "C19:serde-"),
                            ..f
                        })?;
                    }
                }
                if m.len() != model.len() || m.is_empty() != model.is_empty() {
                    return Err(Failure {
                        signature: "C19:len-mismatch".into(),
                        detail: format!("{ctx}: len() = {}, expected {}", m.len(), model.len()),
                    });
                }
                if model.keys().any(|&k| k >= 128) {
                    high = true;
                }
                if !model.keys().copied().eq(0..model.len() as u32) {
                    sparse = true;
                }
            }
            Ok((sparse, high, unset))
        });
        match res {
            Ok(Ok((sparse, high, unset))) => {
                if sparse {
                    rep.labels.push("non-initial-segment");
                }
                if high {
                    rep.labels.push("id>=128");
                }
                if unset {
                    rep.labels.push("unset");
                }
                rep.nontrivial = sparse || high || unset;
            }
            Ok(Err(f)) => rep.failure = Some(f),
            Err(p) => {
                rep.failure = Some(Failure {
                    signature: p.signature(),
                    detail: format!("panic: {} at {}:{}", p.message, p.file, p.line),
                })
            }
        }
        rep
    }
}

// =============================================================================== C18

#[derive(Clone, Debug, PartialEq, Eq, Hash)]
pub struct Vs(pub u32);
impl VersionSet for Vs {
    type V = u32;
}

pub struct C18 {
    pub stage: &'static str,
    pub max_ops: usize,
}

#[derive(Clone, Debug)]
pub enum POp {
    InternString(u32),
    InternName(u32),
    LookupName(u32),
    InternVs(u32, u32),
    InternSolvable(u32, u32),
    InternUnion(Vec<u32>),
    ResolveAll,
}

impl C18 {
    pub fn decode(&self, tape: &[u16]) -> Vec<POp> {
        let mut t = Tape::new(tape);
        let n = 1 + t.below(self.max_ops);
        // value alphabets: small (frequent re-interning) or fresh (crossing chunk boundaries)
        let fresh_bias = t.below(4);
        let mut fresh = 1000u32;
        let mut val = |t: &mut Tape| -> u32 {
            if t.below(4) < fresh_bias {
                fresh += 1;
                fresh
            } else {
                t.below(24) as u32
            }
        };
        let mut ops = vec![];
        for _ in 0..n {
            let op = match t.weighted(&[4, 4, 2, 4, 4, 2, 1]) {
                0 => POp::InternString(val(&mut t)),
                1 => POp::InternName(val(&mut t)),
                2 => POp::LookupName(val(&mut t)),
                3 => POp::InternVs(val(&mut t), val(&mut t)),
                4 => POp::InternSolvable(val(&mut t), t.next() as u32),
                5 => {
                    let k = 1 + t.below(4);
                    POp::InternUnion((0..k).map(|_| t.next() as u32).collect())
                }
                _ => POp::ResolveAll,
            };
            ops.push(op);
        }
        // bulk phases make histories cross several 128-element chunks
        if t.chance(1, 3) {
            let k = 130 + t.below(300);
            for i in 0..k {
                ops.push(match t.below(3) {
                    0 => POp::InternString(5000 + i as u32),
                    1 => POp::InternName(5000 + i as u32),
                    _ => POp::InternSolvable(t.below(8) as u32, i as u32),
                });
            }
        }
        ops.push(POp::ResolveAll);
        ops
    }
}

struct Held {
    what: String,
    ptr: *const u8,
    len: usize,
    expect: Vec<u8>,
}

impl Property for C18 {
    fn id(&self) -> &'static str {
        "C18"
    }
    fn stage(&self) -> &'static str {
        self.stage
    }
    fn max_tape(&self) -> usize {
        1500
    }
    fn rule(&self) -> String {
        "tape -> history of intern_string / intern_package_name / lookup_package_name / intern_version_set / intern_solvable / intern_version_set_union / resolve_* calls on Pool<Vs,String> with values from a small alphabet (frequent re-interning) and fresh values (arenas cross several 128-element chunks, maps rehash), interpreted against HashMap/Vec reference models: equal values share ids, new values get the next dense id, solvable and union ids are always fresh and dense, resolve/lookup return exactly what was interned; REFERENCES (&str, &String, &Vs, &Solvable) obtained from the pool are held across all later insertions and must keep their address and contents. Non-trivial: the history crosses >=2 chunk boundaries with >=10 references held across them. Distinct = distinct hash of the history.".into()
    }
    fn describe(&self, tape: &[u16]) -> String {
        let ops = self.decode(tape);
        format!("{} ops: {:?}\n", ops.len(), &ops[..ops.len().min(60)])
    }
    fn eval(&self, tape: &[u16]) -> CaseReport {
        let ops = self.decode(tape);
        let mut rep = CaseReport {
            evaluations: 1,
            case_hash: hash_of(&format!("{ops:?}")),
            ..Default::default()
        };
        let res = crate::run::guarded(|| -> Result<(usize, usize), Failure> {
            let pool: Pool<Vs, String> = Pool::new();
            let mut strings: Vec<String> = vec![];
            let mut string_ids: HashMap<String, u32> = HashMap::new();
            let mut names: Vec<String> = vec![];
            let mut name_ids: HashMap<String, u32> = HashMap::new();
            let mut vsets: Vec<(u32, Vs)> = vec![];
            let mut vset_ids: HashMap<(u32, Vs), u32> = HashMap::new();
            let mut solvables: Vec<(u32, u32)> = vec![];
            let mut unions: Vec<Vec<u32>> = vec![];
            let mut held: Vec<Held> = vec![];
            let mut boundaries = 0usize;
            let mut held_across = 0usize;
            let bad = |sig: &str, detail: String| Failure {
                signature: format!("C18:{sig}"),
                detail,
            };
            for (i, op) in ops.iter().enumerate() {
                let ctx = format!("op #{i} {op:?}");
                let before = strings.len() / 128 + names.len() / 128 + vsets.len() / 128 + solvables.len() / 128;
                match op {
                    POp::InternString(v) => {
                        let s = format!("str{v}");
                        let id = pool.intern_string(s.clone());
                        let want = *string_ids.entry(s.clone()).or_insert_with(|| {
                            strings.push(s.clone());
                            strings.len() as u32 - 1
                        });
                        if id != StringId(want) {
                            return Err(bad("string-id", format!("{ctx}: got {id:?}, expected id {want}")));
                        }
                        let r: &str = pool.resolve_string(id);
                        if r != s {
                            return Err(bad("resolve-string", format!("{ctx}: resolves to {r:?}")));
                        }
                        held.push(Held {
                            what: format!("string {want}"),
                            ptr: r.as_ptr(),
                            len: r.len(),
                            expect: s.into_bytes(),
                        });
                    }
                    POp::InternName(v) => {
                        let s = format!("name{v}");
                        let id = pool.intern_package_name(s.clone());
                        let want = *name_ids.entry(s.clone()).or_insert_with(|| {
                            names.push(s.clone());
                            names.len() as u32 - 1
                        });
                        if id != NameId(want) {
                            return Err(bad("name-id", format!("{ctx}: got {id:?}, expected id {want}")));
                        }
                        let r: &String = pool.resolve_package_name(id);
                        if *r != s {
                            return Err(bad("resolve-name", format!("{ctx}: resolves to {r:?}")));
                        }
                        held.push(Held {
                            what: format!("name {want}"),
                            ptr: r.as_ptr(),
                            len: r.len(),
                            expect: s.into_bytes(),
                        });
                    }
                    POp::LookupName(v) => {
                        let s = format!("name{v}");
                        let got = pool.lookup_package_name(&s);
                        let want = name_ids.get(&s).map(|&i| NameId(i));
                        if got != want {
                            return Err(bad("lookup-name", format!("{ctx}: got {got:?}, expected {want:?}")));
                        }
                    }
                    POp::InternVs(n, v) => {
                        if names.is_empty() {
                            continue;
                        }
                        let name = *n % names.len() as u32;
                        let vs = Vs(*v);
                        let id = pool.intern_version_set(NameId(name), vs.clone());
                        let want = *vset_ids.entry((name, vs.clone())).or_insert_with(|| {
                            vsets.push((name, vs.clone()));
                            vsets.len() as u32 - 1
                        });
                        if id != VersionSetId(want) {
                            return Err(bad("version-set-id", format!("{ctx}: got {id:?}, expected id {want}")));
                        }
                        let r: &Vs = pool.resolve_version_set(id);
                        if *r != vs || pool.resolve_version_set_package_name(id) != NameId(name) {
                            return Err(bad("resolve-version-set", format!("{ctx}: resolves to {r:?}")));
                        }
                        held.push(Held {
                            what: format!("version set {want}"),
                            ptr: r as *const Vs as *const u8,
                            len: 4,
                            expect: v.to_ne_bytes().to_vec(),
                        });
                    }
                    POp::InternSolvable(n, rec) => {
                        if names.is_empty() {
                            continue;
                        }
                        let name = *n % names.len() as u32;
                        let id = pool.intern_solvable(NameId(name), *rec);
                        solvables.push((name, *rec));
                        let want = solvables.len() as u32 - 1;
                        if id != SolvableId(want) {
                            return Err(bad("solvable-id", format!("{ctx}: got {id:?}, expected fresh dense id {want}")));
                        }
                        let r = pool.resolve_solvable(id);
                        if r.name != NameId(name) || r.record != *rec {
                            return Err(bad("resolve-solvable", format!("{ctx}: resolves to ({:?},{})", r.name, r.record)));
                        }
                        held.push(Held {
                            what: format!("solvable {want}"),
                            ptr: &r.record as *const u32 as *const u8,
                            len: 4,
                            expect: rec.to_ne_bytes().to_vec(),
                        });
                    }
                    POp::InternUnion(members) => {
                        if vsets.is_empty() {
                            continue;
                        }
                        let ms: Vec<u32> = members.iter().map(|m| m % vsets.len() as u32).collect();
                        let id = pool.intern_version_set_union(VersionSetId(ms[0]), ms[1..].iter().map(|&m| VersionSetId(m)));
                        unions.push(ms.clone());
                        let want = unions.len() as u32 - 1;
                        if id != VersionSetUnionId(want) {
                            return Err(bad("union-id", format!("{ctx}: got {id:?}, expected fresh dense id {want}")));
                        }
                        let got: Vec<u32> = pool.resolve_version_set_union(id).map(|v| v.0).collect();
                        if got != ms {
                            return Err(bad("resolve-union", format!("{ctx}: resolves to {got:?}, expected {ms:?}")));
                        }
                    }
                    POp::ResolveAll => {
                        for (i, s) in strings.iter().enumerate() {
                            if pool.resolve_string(StringId(i as u32)) != s {
                                return Err(bad("resolve-string", format!("{ctx}: string {i}")));
                            }
                        }
                        for (i, s) in names.iter().enumerate() {
                            if pool.resolve_package_name(NameId(i as u32)) != s || pool.lookup_package_name(s) != Some(NameId(i as u32)) {
                                return Err(bad("resolve-name", format!("{ctx}: name {i}")));
                            }
                        }
                        for (i, (n, vs)) in vsets.iter().enumerate() {
                            let id = VersionSetId(i as u32);
                            if pool.resolve_version_set(id) != vs || pool.resolve_version_set_package_name(id) != NameId(*n) {
                                return Err(bad("resolve-version-set", format!("{ctx}: version set {i}")));
                            }
                        }
                        for (i, (n, r)) in solvables.iter().enumerate() {
                            let s = pool.resolve_solvable(SolvableId(i as u32));
                            if s.name != NameId(*n) || s.record != *r {
                                return Err(bad("resolve-solvable", format!("{ctx}: solvable {i}")));
                            }
                        }
                        for (i, ms) in unions.iter().enumerate() {
                            let got: Vec<u32> = pool.resolve_version_set_union(VersionSetUnionId(i as u32)).map(|v| v.0).collect();
                            if &got != ms {
                                return Err(bad("resolve-union", format!("{ctx}: union {i}")));
                            }
                        }
                    }
                }
                let after = strings.len() / 128 + names.len() / 128 + vsets.len() / 128 + solvables.len() / 128;
                if after > before {
                    boundaries += 1;
                    held_across = held_across.max(held.len());
                    // every reference handed out so far must still read the same bytes
                    for h in &held {
                        let bytes = unsafe { std::slice::from_raw_parts(h.ptr, h.len) };
                        if bytes != &h.expect[..] {
                            return Err(bad(
                                "held-reference-changed",
                                format!("{ctx}: reference to {} no longer reads its value", h.what),
                            ));
                        }
                    }
                }
            }
            // final: all held references intact and stable addresses
            for h in &held {
                let bytes = unsafe { std::slice::from_raw_parts(h.ptr, h.len) };
                if bytes != &h.expect[..] {
                    return Err(bad("held-reference-changed", format!("final: reference to {} changed", h.what)));
                }
            }
            for (i, s) in strings.iter().enumerate() {
                let r = pool.resolve_string(StringId(i as u32));
                if let Some(h) = held.iter().find(|h| h.what == format!("string {i}")) {
                    if h.ptr != r.as_ptr() {
                        return Err(bad("address-moved", format!("string {i} ({s}) moved in memory")));
                    }
                }
            }
            Ok((boundaries, held_across))
        });
        match res {
            Ok(Ok((b, h))) => {
                if b >= 2 {
                    rep.labels.push("chunk-boundaries>=2");
                }
                rep.nontrivial = b >= 2 && h >= 10;
            }
            Ok(Err(f)) => rep.failure = Some(f),
            Err(p) => {
                rep.failure = Some(Failure {
                    signature: p.signature(),
                    detail: format!("panic: {} at {}:{}", p.message, p.file, p.line),
                })
            }
        }
        rep
    }
}

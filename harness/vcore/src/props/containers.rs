//! C19 (Mapping vs BTreeMap), C18 (Pool interning with held references).

use crate::runner::*;
use crate::tape::Tape;
use resolvo::utils::{Pool, VersionSet};
use resolvo::{Mapping, NameId, SolvableId, StringId, VersionSetId, VersionSetUnionId};
use std::collections::{BTreeMap, HashMap};

// =============================================================================== C19

pub struct C19 {
    pub stage: &'static str,
    pub max_ops: usize,
    /// long histories over a dozen generated ids (hundreds of successful removals on one
    /// mapping), ids up to ~25000 including pairs that lie a multiple of 64 chunks apart;
    /// iteration is compared after every successful removal (own tape layout)
    pub long: bool,
}

#[derive(Clone, Debug)]
pub enum MOp {
    Insert(u32, u32),
    Unset(u32),
    Get(u32),
    GetMut(u32, u32),
    Iter,
    Serde,
}

#[derive(Clone, Debug)]
pub struct MHistory {
    pub with_capacity: Option<usize>,
    pub ops: Vec<MOp>,
}

impl C19 {
    fn decode_long(&self, tape: &[u16]) -> MHistory {
        let mut t = Tape::new(tape);
        t.enable_tail(tape.first().copied().unwrap_or(0) | 1);
        let with_capacity = match t.below(3) {
            0 => None,
            1 => Some(t.below(300)),
            _ => Some(8000 + t.below(9000)),
        };
        let small = t.below(300) as u32;
        let mut ids: Vec<u32> = vec![small, small + 1, t.below(128) as u32, 128 + t.below(128) as u32, 127, 128];
        for j in 1..=2u32 {
            // the same slot region, a multiple of 64 chunks (8192 ids) further up
            let near = ids[t.below(ids.len())];
            ids.push(j * 8192 + (near & !127) + t.below(128) as u32);
        }
        ids.push(8192 + t.below(256) as u32);
        ids.push(t.below(25_000) as u32);
        ids.push(t.below(2_000) as u32);
        ids.sort_unstable();
        ids.dedup();
        let n = 1 + t.below(self.max_ops);
        let mut ops = vec![];
        for _ in 0..n {
            let id = ids[t.below(ids.len())];
            let op = match t.weighted(&[50, 50, 8, 8, 10, 1]) {
                0 => MOp::Insert(id, t.next() as u32),
                1 => MOp::Unset(id),
                2 => MOp::Get(id),
                3 => MOp::GetMut(id, t.next() as u32),
                4 => MOp::Iter,
                _ => MOp::Serde,
            };
            ops.push(op);
        }
        ops.push(MOp::Iter);
        ops.push(MOp::Serde);
        MHistory { with_capacity, ops }
    }

    pub fn decode(&self, tape: &[u16]) -> MHistory {
        if self.long {
            return self.decode_long(tape);
        }
        let mut t = Tape::new(tape);
        let with_capacity = match t.below(4) {
            0 => None,
            1 => Some(0),
            2 => Some(1 + t.below(128)),
            _ => Some(100 + t.below(500)),
        };
        // id distribution
        let mode = t.below(5);
        let offset = t.below(300) as u32;
        let mut gen_id = |t: &mut Tape| -> u32 {
            match mode {
                0 => t.below(12) as u32,                  // dense from 0
                1 => offset + t.below(12) as u32,         // dense from an offset
                2 => t.below(1000) as u32,                // sparse
                3 => [0u32, 1, 127, 128, 129, 255, 256, 257, 383, 384, 640][t.below(11)], // chunk edges
                _ => {
                    if t.chance(1, 4) {
                        500 + t.below(300) as u32
                    } else {
                        t.below(6) as u32
                    }
                }
            }
        };
        let n = 1 + t.below(self.max_ops);
        let mut ops = vec![];
        for _ in 0..n {
            let op = match t.weighted(&[6, 3, 2, 2, 2, 1]) {
                0 => MOp::Insert(gen_id(&mut t), t.next() as u32),
                1 => MOp::Unset(gen_id(&mut t)),
                2 => MOp::Get(gen_id(&mut t)),
                3 => MOp::GetMut(gen_id(&mut t), t.next() as u32),
                4 => MOp::Iter,
                _ => MOp::Serde,
            };
            ops.push(op);
        }
        ops.push(MOp::Iter);
        ops.push(MOp::Serde);
        MHistory { with_capacity, ops }
    }
}

fn mapping_pairs(m: &Mapping<NameId, u32>) -> Vec<(u32, u32)> {
    m.iter().map(|(k, v)| (k.0, *v)).collect()
}

fn check_mapping(m: &Mapping<NameId, u32>, model: &BTreeMap<u32, u32>, ctx: &str) -> Result<(), Failure> {
    if m.len() != model.len() {
        return Err(Failure {
            signature: "C19:len-mismatch".into(),
            detail: format!("{ctx}: len() = {} but the reference map holds {} entries", m.len(), model.len()),
        });
    }
    if m.is_empty() != model.is_empty() {
        return Err(Failure {
            signature: "C19:is_empty-mismatch".into(),
            detail: format!("{ctx}: is_empty() = {}", m.is_empty()),
        });
    }
    let got = mapping_pairs(m);
    let want: Vec<(u32, u32)> = model.iter().map(|(k, v)| (*k, *v)).collect();
    if got != want {
        return Err(Failure {
            signature: "C19:iter-mismatch".into(),
            detail: format!("{ctx}: iter() yields {got:?}, reference map holds {want:?}"),
        });
    }
    // the same pairs whichever way the iterator is consumed: advanced by hand and then drained
    // through fold (for_each / count / collect into a map), nth, last; size_hint must bracket
    // what is left; once exhausted it stays exhausted
    let n = want.len();
    for k in [0usize, 1, n / 2, n.saturating_sub(1), n] {
        if k > n {
            continue;
        }
        let mut it = m.iter();
        let mut head = vec![];
        for _ in 0..k {
            match it.next() {
                Some((id, v)) => head.push((id.0, *v)),
                None => break,
            }
        }
        let (lo, hi) = it.size_hint();
        let left = n - head.len().min(n);
        if lo > left || hi.is_some_and(|h| h < left) {
            return Err(Failure {
                signature: "C19:size-hint".into(),
                detail: format!("{ctx}: after {k} next() calls size_hint() = ({lo}, {hi:?}) but {left} pairs are left"),
            });
        }
        let mut tail = vec![];
        match k % 3 {
            0 => it.for_each(|(id, v)| tail.push((id.0, *v))),
            1 => {
                let map: std::collections::BTreeMap<u32, u32> = it.map(|(id, v)| (id.0, *v)).collect();
                tail = map.into_iter().collect();
            }
            _ => {
                let mut twin = m.iter();
                for _ in 0..head.len() {
                    twin.next();
                }
                let c = twin.count();
                tail = it.fold(vec![], |mut acc, (id, v)| {
                    acc.push((id.0, *v));
                    acc
                });
                if c != tail.len() {
                    return Err(Failure {
                        signature: "C19:iter-mismatch".into(),
                        detail: format!("{ctx}: count() = {c} after {k} next() calls, but {} pairs follow", tail.len()),
                    });
                }
            }
        }
        head.extend(tail);
        if head != want {
            return Err(Failure {
                signature: "C19:iter-mismatch".into(),
                detail: format!("{ctx}: {k} next() calls followed by a fold over the rest yield {head:?}, reference map holds {want:?}"),
            });
        }
    }
    if n > 0 {
        let k = n / 2;
        let nth = m.iter().nth(k).map(|(id, v)| (id.0, *v));
        let last = m.iter().last().map(|(id, v)| (id.0, *v));
        if nth != Some(want[k]) || last != Some(want[n - 1]) {
            return Err(Failure {
                signature: "C19:iter-mismatch".into(),
                detail: format!("{ctx}: nth({k}) = {nth:?}, last() = {last:?}, reference map holds {want:?}"),
            });
        }
    }
    let mut it = m.iter();
    while it.next().is_some() {}
    if it.next().is_some() || it.next().is_some() {
        return Err(Failure {
            signature: "C19:iter-mismatch".into(),
            detail: format!("{ctx}: the exhausted iterator yields a pair again"),
        });
    }
    for (k, v) in model {
        if m.get(NameId(*k)) != Some(v) {
            return Err(Failure {
                signature: "C19:get-mismatch".into(),
                detail: format!("{ctx}: get({k}) = {:?}, expected {v}", m.get(NameId(*k))),
            });
        }
    }
    Ok(())
}

impl Property for C19 {
    fn id(&self) -> &'static str {
        "C19"
    }
    fn stage(&self) -> &'static str {
        self.stage
    }
    fn max_tape(&self) -> usize {
        700
    }
    fn rule(&self) -> String {
        "tape -> construction (default / with_capacity(n)) + id distribution (dense from 0, dense from an offset, sparse below 1000, chunk-edge ids 127/128/129/255/256/.., mostly-dense with a few high ids) + history of insert / unset / get / get_mut / iter / serde round trip operations on Mapping<NameId,u32>, interpreted against a BTreeMap reference: after every operation the returned previous value, get, len and is_empty agree; on iter operations iter() must yield exactly the reference pairs in ascending id order; on serde operations from_value(to_value(m)) must hold the same pairs. Stage long: up to 1500 operations over a dozen generated ids (small, chunk edges, up to ~25000, and pairs a multiple of 64 chunks = 8192 ids apart), insert and unset equally likely (hundreds of successful removals on one mapping), iter/len/get compared after EVERY successful removal. Non-trivial: the stored ids are not an initial segment of the naturals, or some id >= 128, or an unset happened. Distinct = distinct hash of the history.".into()
    }
    fn describe(&self, tape: &[u16]) -> String {
        format!("{:?}\n", self.decode(tape))
    }
    fn eval(&self, tape: &[u16]) -> CaseReport {
        let h = self.decode(tape);
        let mut rep = CaseReport {
            evaluations: 1,
            case_hash: hash_of(&format!("{h:?}")),
            ..Default::default()
        };
        let long = self.long;
        let res = crate::run::guarded(|| -> Result<(bool, bool, bool, usize), Failure> {
            let mut m: Mapping<NameId, u32> = match h.with_capacity {
                None => Mapping::default(),
                Some(n) => Mapping::with_capacity(n),
            };
            let mut model: BTreeMap<u32, u32> = BTreeMap::new();
            let (mut sparse, mut high, mut unset) = (false, false, false);
            let mut removals = 0usize;
            for (i, op) in h.ops.iter().enumerate() {
                let ctx = format!("after op #{i} {op:?}");
                match op {
                    MOp::Insert(k, v) => {
                        let a = m.insert(NameId(*k), *v);
                        let b = model.insert(*k, *v);
                        if a != b {
                            return Err(Failure {
                                signature: "C19:insert-return-mismatch".into(),
                                detail: format!("{ctx}: returned {a:?}, expected {b:?}"),
                            });
                        }
                    }
                    MOp::Unset(k) => {
                        let a = m.unset(NameId(*k));
                        let b = model.remove(k);
                        if b.is_some() {
                            unset = true;
                        }
                        if a != b {
                            return Err(Failure {
                                signature: "C19:unset-return-mismatch".into(),
                                detail: format!("{ctx}: returned {a:?}, expected {b:?}"),
                            });
                        }
                        if long && b.is_some() {
                            removals += 1;
                            check_mapping(&m, &model, &format!("{ctx} (successful removal #{removals})"))?;
                        }
                    }
                    MOp::Get(k) => {
                        if m.get(NameId(*k)) != model.get(k) {
                            return Err(Failure {
                                signature: "C19:get-mismatch".into(),
                                detail: format!("{ctx}: get = {:?}, expected {:?}", m.get(NameId(*k)), model.get(k)),
                            });
                        }
                    }
                    MOp::GetMut(k, v) => {
                        let a = m.get_mut(NameId(*k));
                        let b = model.get_mut(k);
                        match (a, b) {
                            (Some(a), Some(b)) => {
                                *a = *v;
                                *b = *v;
                            }
                            (None, None) => {}
                            (a, b) => {
                                return Err(Failure {
                                    signature: "C19:get_mut-mismatch".into(),
                                    detail: format!("{ctx}: get_mut = {a:?}, expected {b:?}"),
                                })
                            }
                        }
                    }
                    MOp::Iter => check_mapping(&m, &model, &ctx)?,
                    MOp::Serde => {
                        let json = serde_json::to_value(&m).map_err(|e| Failure {
                            signature: "C19:serde-error".into(),
                            detail: format!("{ctx}: serialize failed: {e}"),
                        })?;
                        let back: Mapping<NameId, u32> = serde_json::from_value(json.clone()).map_err(|e| Failure {
                            signature: "C19:serde-error".into(),
                            detail: format!("{ctx}: deserialize failed: {e} for {json}"),
                        })?;
                        check_mapping(&back, &model, &format!("{ctx} (deserialized copy of {json})")).map_err(|f| Failure {
                            signature: f.signature.replace("C19:", "C19:serde-"),
                            ..f
                        })?;
                    }
                }
                if m.len() != model.len() || m.is_empty() != model.is_empty() {
                    return Err(Failure {
                        signature: "C19:len-mismatch".into(),
                        detail: format!("{ctx}: len() = {}, expected {}", m.len(), model.len()),
                    });
                }
                if model.keys().any(|&k| k >= 128) {
                    high = true;
                }
                if !model.keys().copied().eq(0..model.len() as u32) {
                    sparse = true;
                }
            }
            Ok((sparse, high, unset, removals))
        });
        match res {
            Ok(Ok((sparse, high, unset, removals))) => {
                if removals >= 256 {
                    rep.labels.push("removals>=256");
                }
                if sparse {
                    rep.labels.push("non-initial-segment");
                }
                if high {
                    rep.labels.push("id>=128");
                }
                if unset {
                    rep.labels.push("unset");
                }
                rep.nontrivial = sparse || high || unset;
            }
            Ok(Err(f)) => rep.failure = Some(f),
            Err(p) => {
                rep.failure = Some(Failure {
                    signature: p.signature(),
                    detail: format!("panic: {} at {}:{}", p.message, p.file, p.line),
                })
            }
        }
        rep
    }
}

// =============================================================================== C18

#[derive(Clone, Debug, PartialEq, Eq, Hash)]
pub struct Vs(pub u32);
impl VersionSet for Vs {
    type V = u32;
}

/// A record wider than a cache line: arenas that reserve by bytes instead of by element
/// count, or that memcpy on growth, show with these and not with a `u32`.
#[derive(Clone, Debug, PartialEq, Eq, Hash)]
pub struct FatRec(pub [u64; 20]);
impl std::fmt::Display for FatRec {
    fn fmt(&self, f: &mut std::fmt::Formatter<'_>) -> std::fmt::Result {
        write!(f, "fat{}", self.0[0])
    }
}
/// Its `Hash` is coarser than its `Eq` as well (only the second field is hashed, like a spec
/// hashed by its version bounds but not its build string): two different version sets may
/// share a hash and must still get different ids.
#[derive(Clone, Debug, PartialEq, Eq)]
pub struct FatVs(pub [u64; 12], pub u32);
impl std::hash::Hash for FatVs {
    fn hash<H: std::hash::Hasher>(&self, h: &mut H) {
        self.1.hash(h)
    }
}
impl VersionSet for FatVs {
    type V = FatRec;
}
/// A package name whose `Hash` is coarser than its `Eq` (only the base is hashed, like a
/// `name[feature]` key hashed by name): allowed by the `Hash` contract, and the pool must
/// still tell the two apart.
#[derive(Clone, Debug, PartialEq, Eq)]
pub struct FeatName {
    pub base: u32,
    pub feat: u32,
    pub pad: [u64; 9],
}
impl std::hash::Hash for FeatName {
    fn hash<H: std::hash::Hasher>(&self, h: &mut H) {
        self.base.hash(h)
    }
}

pub trait Flavor {
    type Vs: VersionSet<V = Self::Rec> + std::fmt::Debug + 'static;
    type Name: Clone + Eq + std::hash::Hash + std::fmt::Debug + 'static;
    type Rec: Clone + PartialEq + std::fmt::Debug + std::fmt::Display + 'static;
    fn vs(v: u32) -> Self::Vs;
    fn name(v: u32) -> Self::Name;
    fn rec(v: u32) -> Self::Rec;
    fn string(v: u32) -> String;
}
pub struct Plain;
impl Flavor for Plain {
    type Vs = Vs;
    type Name = String;
    type Rec = u32;
    fn vs(v: u32) -> Vs {
        Vs(v)
    }
    fn name(v: u32) -> String {
        format!("name{v}")
    }
    fn rec(v: u32) -> u32 {
        v
    }
    fn string(v: u32) -> String {
        format!("str{v}")
    }
}
pub struct Fat;
impl Flavor for Fat {
    type Vs = FatVs;
    type Name = FeatName;
    type Rec = FatRec;
    fn vs(v: u32) -> FatVs {
        let mut a = [0x5a5a_5a5a_5a5a_5a5au64; 12];
        a[11] = v as u64; // equal prefixes, the difference is in the last word
        FatVs(a, v / 2)
    }
    fn name(v: u32) -> FeatName {
        FeatName {
            base: v / 3,
            feat: v % 3,
            pad: [v as u64; 9],
        }
    }
    fn rec(v: u32) -> FatRec {
        let mut a = [v as u64 ^ 0xdead_beef; 20];
        a[0] = v as u64;
        a[19] = !(v as u64);
        FatRec(a)
    }
    fn string(v: u32) -> String {
        // a third are short, the others 64..200 bytes with a long common prefix and the
        // distinguishing part at the very end
        if v % 7 == 3 {
            // beyond half a kilobyte (a path, a URL with a token, a license text)
            return format!("{}{v}", "long/".repeat(104 + (v as usize % 300)));
        }
        match v % 3 {
            0 => format!("s{v}"),
            1 => format!("{}{v}", "a-rather-long-common-prefix/".repeat(3)),
            _ => format!("{}{v}", "x".repeat(64 + (v as usize % 130))),
        }
    }
}

pub struct C18 {
    pub stage: &'static str,
    pub max_ops: usize,
    pub fat: bool,
    /// > 0: the history ends with bulk phases of up to this many fresh items of ONE kind (an
    /// arena then holds thousands of elements: dozens of chunks, several growth steps of the
    /// chunk table) and may intern unions re-entrantly from inside the member iterator of
    /// another union (own tape layout; the other stages' replay tapes keep their meaning)
    pub bulk: usize,
}

#[derive(Clone, Debug)]
pub enum POp {
    InternString(u32),
    InternName(u32),
    LookupName(u32),
    InternVs(u32, u32),
    InternSolvable(u32, u32),
    InternUnion(Vec<u32>),
    ResolveAll,
    /// outer members (>= 3, passed as an exact-size iterator), inner members, and the position
    /// of the outer member whose evaluation interns the inner union
    InternUnionNested(Vec<u32>, Vec<u32>, usize),
}

impl C18 {
    pub fn decode(&self, tape: &[u16]) -> Vec<POp> {
        let mut t = Tape::new(tape);
        let n = 1 + t.below(self.max_ops);
        // value alphabets: small (frequent re-interning) or fresh (crossing chunk boundaries)
        let fresh_bias = t.below(4);
        let mut fresh = 1000u32;
        let mut val = |t: &mut Tape| -> u32 {
            if t.below(4) < fresh_bias {
                fresh += 1;
                fresh
            } else {
                t.below(24) as u32
            }
        };
        let mut ops = vec![];
        let weights: [u32; 8] = if self.bulk > 0 { [4, 4, 2, 4, 4, 2, 1, 2] } else { [4, 4, 2, 4, 4, 2, 1, 0] };
        for _ in 0..n {
            let op = match t.weighted(&weights) {
                0 => POp::InternString(val(&mut t)),
                1 => POp::InternName(val(&mut t)),
                2 => POp::LookupName(val(&mut t)),
                3 => POp::InternVs(val(&mut t), val(&mut t)),
                4 => POp::InternSolvable(val(&mut t), t.next() as u32),
                5 => {
                    let k = 1 + t.below(4);
                    POp::InternUnion((0..k).map(|_| t.next() as u32).collect())
                }
                6 => POp::ResolveAll,
                _ => {
                    let k = 3 + t.below(4);
                    let outer: Vec<u32> = (0..k).map(|_| t.next() as u32).collect();
                    let ki = 1 + t.below(4);
                    let inner: Vec<u32> = (0..ki).map(|_| t.next() as u32).collect();
                    POp::InternUnionNested(outer, inner, 1 + t.below(k - 1))
                }
            };
            ops.push(op);
        }
        // bulk phases make histories cross several 128-element chunks
        if t.chance(1, 3) {
            let k = 130 + t.below(300);
            for i in 0..k {
                ops.push(match t.below(3) {
                    0 => POp::InternString(5000 + i as u32),
                    1 => POp::InternName(5000 + i as u32),
                    _ => POp::InternSolvable(t.below(8) as u32, i as u32),
                });
            }
        }
        if self.bulk > 0 {
            // one or two big single-kind phases, log-uniform in 256..=bulk, then a few more ops
            for phase in 0..1 + t.below(2) {
                let bits = (usize::BITS - self.bulk.leading_zeros()) as usize;
                let e = 8 + t.below(bits.saturating_sub(8).max(1));
                let k = ((1usize << e) + t.below(1 << e)).min(self.bulk);
                let kind = t.below(4);
                for i in 0..k {
                    let v = 100_000 + (phase * 50_000 + i) as u32;
                    ops.push(match kind {
                        0 => POp::InternName(v),
                        1 => POp::InternSolvable(i as u32 % 7, v),
                        2 => POp::InternVs(i as u32 % 5, v),
                        _ => POp::InternString(v),
                    });
                }
                for _ in 0..t.below(12) {
                    ops.push(match t.below(4) {
                        0 => POp::InternName(val(&mut t)),
                        1 => POp::InternSolvable(t.below(8) as u32, t.next() as u32),
                        2 => POp::InternVs(val(&mut t), val(&mut t)),
                        _ => POp::InternUnion(vec![t.next() as u32, t.next() as u32, t.next() as u32]),
                    });
                }
            }
        }
        ops.push(POp::ResolveAll);
        ops
    }
}

struct Held {
    what: String,
    /// re-reads the value through the saved address and compares it with a saved clone
    still_reads: Box<dyn Fn() -> bool>,
    addr: usize,
}

fn hold<T: Clone + PartialEq + 'static>(what: String, r: &T) -> Held {
    let p = r as *const T;
    let e = r.clone();
    Held {
        what,
        still_reads: Box::new(move || unsafe { &*p } == &e),
        addr: p as usize,
    }
}
fn hold_str(what: String, r: &str) -> Held {
    let (p, l) = (r.as_ptr(), r.len());
    let e = r.as_bytes().to_vec();
    Held {
        what,
        still_reads: Box::new(move || unsafe { std::slice::from_raw_parts(p, l) } == &e[..]),
        addr: p as usize,
    }
}

fn c18_history<F: Flavor>(ops: &[POp]) -> Result<(usize, usize), Failure> {
    let pool: Pool<F::Vs, F::Name> = Pool::new();
    let mut strings: Vec<String> = vec![];
    let mut string_ids: HashMap<String, u32> = HashMap::new();
    let mut names: Vec<F::Name> = vec![];
    let mut name_ids: HashMap<F::Name, u32> = HashMap::new();
    let mut vsets: Vec<(u32, F::Vs)> = vec![];
    let mut vset_ids: HashMap<(u32, F::Vs), u32> = HashMap::new();
    let mut solvables: Vec<(u32, F::Rec)> = vec![];
    let mut unions: Vec<Vec<u32>> = vec![];
    let mut held: Vec<Held> = vec![];
    let mut boundaries = 0usize;
    let mut held_across = 0usize;
    let bad = |sig: &str, detail: String| Failure {
        signature: format!("C18:{sig}"),
        detail,
    };
    for (i, op) in ops.iter().enumerate() {
        let ctx = format!("op #{i} {op:?}");
        let before = strings.len() / 128 + names.len() / 128 + vsets.len() / 128 + solvables.len() / 128;
        match op {
            POp::InternString(v) => {
                let s = F::string(*v);
                let id = pool.intern_string(s.clone());
                let want = *string_ids.entry(s.clone()).or_insert_with(|| {
                    strings.push(s.clone());
                    strings.len() as u32 - 1
                });
                if id != StringId(want) {
                    return Err(bad("string-id", format!("{ctx}: got {id:?}, expected id {want}")));
                }
                let r: &str = pool.resolve_string(id);
                if r != s {
                    return Err(bad("resolve-string", format!("{ctx}: resolves to {r:?}")));
                }
                held.push(hold_str(format!("string {want}"), r));
            }
            POp::InternName(v) => {
                let s = F::name(*v);
                let id = pool.intern_package_name(s.clone());
                let want = *name_ids.entry(s.clone()).or_insert_with(|| {
                    names.push(s.clone());
                    names.len() as u32 - 1
                });
                if id != NameId(want) {
                    return Err(bad("name-id", format!("{ctx}: got {id:?}, expected id {want}")));
                }
                let r: &F::Name = pool.resolve_package_name(id);
                if *r != s {
                    return Err(bad("resolve-name", format!("{ctx}: resolves to {r:?}")));
                }
                held.push(hold(format!("name {want}"), r));
            }
            POp::LookupName(v) => {
                let s = F::name(*v);
                let got = pool.lookup_package_name(&s);
                let want = name_ids.get(&s).map(|&i| NameId(i));
                if got != want {
                    return Err(bad("lookup-name", format!("{ctx}: got {got:?}, expected {want:?}")));
                }
            }
            POp::InternVs(n, v) => {
                if names.is_empty() {
                    continue;
                }
                let name = *n % names.len() as u32;
                let vs = F::vs(*v);
                let id = pool.intern_version_set(NameId(name), vs.clone());
                let want = *vset_ids.entry((name, vs.clone())).or_insert_with(|| {
                    vsets.push((name, vs.clone()));
                    vsets.len() as u32 - 1
                });
                if id != VersionSetId(want) {
                    return Err(bad("version-set-id", format!("{ctx}: got {id:?}, expected id {want}")));
                }
                let r: &F::Vs = pool.resolve_version_set(id);
                if *r != vs || pool.resolve_version_set_package_name(id) != NameId(name) {
                    return Err(bad("resolve-version-set", format!("{ctx}: resolves to {r:?}")));
                }
                held.push(hold(format!("version set {want}"), r));
            }
            POp::InternSolvable(n, rec) => {
                if names.is_empty() {
                    continue;
                }
                let name = *n % names.len() as u32;
                let record = F::rec(*rec);
                let id = pool.intern_solvable(NameId(name), record.clone());
                solvables.push((name, record.clone()));
                let want = solvables.len() as u32 - 1;
                if id != SolvableId(want) {
                    return Err(bad("solvable-id", format!("{ctx}: got {id:?}, expected fresh dense id {want}")));
                }
                let r = pool.resolve_solvable(id);
                if r.name != NameId(name) || r.record != record {
                    return Err(bad("resolve-solvable", format!("{ctx}: resolves to ({:?},{:?})", r.name, r.record)));
                }
                held.push(hold(format!("solvable {want}"), &r.record));
            }
            POp::InternUnion(members) => {
                if vsets.is_empty() {
                    continue;
                }
                let ms: Vec<u32> = members.iter().map(|m| m % vsets.len() as u32).collect();
                let id = pool.intern_version_set_union(VersionSetId(ms[0]), ms[1..].iter().map(|&m| VersionSetId(m)));
                unions.push(ms.clone());
                let want = unions.len() as u32 - 1;
                if id != VersionSetUnionId(want) {
                    return Err(bad("union-id", format!("{ctx}: got {id:?}, expected fresh dense id {want}")));
                }
                let got: Vec<u32> = pool.resolve_version_set_union(id).map(|v| v.0).collect();
                if got != ms {
                    return Err(bad("resolve-union", format!("{ctx}: resolves to {got:?}, expected {ms:?}")));
                }
            }
            POp::InternUnionNested(outer, inner, at) => {
                if vsets.is_empty() {
                    continue;
                }
                let nv = vsets.len() as u32;
                let ms: Vec<u32> = outer.iter().map(|m| m % nv).collect();
                let inner_ms: Vec<u32> = inner.iter().map(|m| m % nv).collect();
                let inner_id = std::cell::Cell::new(None);
                // the members are produced lazily by an exact-size iterator; producing member
                // `at` interns another union into the same pool first (a provider that builds
                // nested requirement structures while it iterates)
                let id = pool.intern_version_set_union(
                    VersionSetId(ms[0]),
                    ms[1..].iter().enumerate().map(|(k, &m)| {
                        if k + 1 == *at {
                            inner_id.set(Some(pool.intern_version_set_union(
                                VersionSetId(inner_ms[0]),
                                inner_ms[1..].iter().map(|&m| VersionSetId(m)),
                            )));
                        }
                        VersionSetId(m)
                    }),
                );
                unions.push(inner_ms.clone());
                let want_inner = unions.len() as u32 - 1;
                unions.push(ms.clone());
                let want = unions.len() as u32 - 1;
                if inner_id.get() != Some(VersionSetUnionId(want_inner)) || id != VersionSetUnionId(want) {
                    return Err(bad(
                        "union-id",
                        format!("{ctx}: nested interning gave inner {:?} / outer {id:?}, expected fresh dense ids {want_inner} / {want}", inner_id.get()),
                    ));
                }
                let got: Vec<u32> = pool.resolve_version_set_union(id).map(|v| v.0).collect();
                let got_inner: Vec<u32> = pool.resolve_version_set_union(VersionSetUnionId(want_inner)).map(|v| v.0).collect();
                if got != ms || got_inner != inner_ms {
                    return Err(bad("resolve-union", format!("{ctx}: outer resolves to {got:?} (expected {ms:?}), inner to {got_inner:?} (expected {inner_ms:?})")));
                }
            }
            POp::ResolveAll => {
                for (i, s) in strings.iter().enumerate() {
                    if pool.resolve_string(StringId(i as u32)) != s {
                        return Err(bad("resolve-string", format!("{ctx}: string {i}")));
                    }
                }
                for (i, s) in names.iter().enumerate() {
                    if pool.resolve_package_name(NameId(i as u32)) != s || pool.lookup_package_name(s) != Some(NameId(i as u32)) {
                        return Err(bad("resolve-name", format!("{ctx}: name {i}")));
                    }
                }
                for (i, (n, vs)) in vsets.iter().enumerate() {
                    let id = VersionSetId(i as u32);
                    if pool.resolve_version_set(id) != vs || pool.resolve_version_set_package_name(id) != NameId(*n) {
                        return Err(bad("resolve-version-set", format!("{ctx}: version set {i}")));
                    }
                }
                for (i, (n, r)) in solvables.iter().enumerate() {
                    let s = pool.resolve_solvable(SolvableId(i as u32));
                    if s.name != NameId(*n) || s.record != *r {
                        return Err(bad("resolve-solvable", format!("{ctx}: solvable {i}")));
                    }
                }
                for (i, ms) in unions.iter().enumerate() {
                    let got: Vec<u32> = pool.resolve_version_set_union(VersionSetUnionId(i as u32)).map(|v| v.0).collect();
                    if &got != ms {
                        return Err(bad("resolve-union", format!("{ctx}: union {i}")));
                    }
                }
            }
        }
        let after = strings.len() / 128 + names.len() / 128 + vsets.len() / 128 + solvables.len() / 128;
        if after > before {
            boundaries += 1;
            held_across = held_across.max(held.len());
            // every reference handed out so far must still be where it was (checked first: a
            // reference into storage that was moved must not be dereferenced) ...
            for h in &held {
                let mut it = h.what.rsplitn(2, ' ');
                let id: u32 = it.next().and_then(|x| x.parse().ok()).unwrap_or(0);
                let now = match it.next().unwrap_or("") {
                    "string" => pool.resolve_string(StringId(id)).as_ptr() as usize,
                    "name" => pool.resolve_package_name(NameId(id)) as *const F::Name as usize,
                    "version set" => pool.resolve_version_set(VersionSetId(id)) as *const F::Vs as usize,
                    "solvable" => &pool.resolve_solvable(SolvableId(id)).record as *const F::Rec as usize,
                    _ => h.addr,
                };
                if now != h.addr {
                    return Err(bad("address-moved", format!("{ctx}: {} moved in memory while further items were interned", h.what)));
                }
            }
            // ... and still read the same value
            for h in &held {
                if !(h.still_reads)() {
                    return Err(bad(
                        "held-reference-changed",
                        format!("{ctx}: reference to {} no longer reads its value", h.what),
                    ));
                }
            }
        }
    }
    // final: stable addresses (first), then all held references intact
    let by_what: HashMap<&str, usize> = held.iter().map(|h| (h.what.as_str(), h.addr)).collect();
    for (i, s) in strings.iter().enumerate() {
        let r = pool.resolve_string(StringId(i as u32));
        if let Some(&a) = by_what.get(format!("string {i}").as_str()) {
            if a != r.as_ptr() as usize {
                return Err(bad("address-moved", format!("string {i} ({s}) moved in memory")));
            }
        }
    }
    for i in 0..names.len() {
        let r = pool.resolve_package_name(NameId(i as u32));
        if let Some(&a) = by_what.get(format!("name {i}").as_str()) {
            if a != r as *const F::Name as usize {
                return Err(bad("address-moved", format!("name {i} moved in memory")));
            }
        }
    }
    for i in 0..vsets.len() {
        let r = pool.resolve_version_set(VersionSetId(i as u32));
        if let Some(&a) = by_what.get(format!("version set {i}").as_str()) {
            if a != r as *const F::Vs as usize {
                return Err(bad("address-moved", format!("version set {i} moved in memory")));
            }
        }
    }
    for i in 0..solvables.len() {
        let r = pool.resolve_solvable(SolvableId(i as u32));
        if let Some(&a) = by_what.get(format!("solvable {i}").as_str()) {
            if a != &r.record as *const F::Rec as usize {
                return Err(bad("address-moved", format!("solvable {i} moved in memory")));
            }
        }
    }
    for h in &held {
        if !(h.still_reads)() {
            return Err(bad("held-reference-changed", format!("final: reference to {} changed", h.what)));
        }
    }
    Ok((boundaries, held_across))
}

impl Property for C18 {
    fn id(&self) -> &'static str {
        "C18"
    }
    fn stage(&self) -> &'static str {
        self.stage
    }
    fn max_tape(&self) -> usize {
        1500
    }
    fn rule(&self) -> String {
        "tape -> history of intern_string / intern_package_name / lookup_package_name / intern_version_set / intern_solvable / intern_version_set_union / resolve_* calls on a Pool, with values from a small alphabet (frequent re-interning) and fresh values (arenas cross several 128-element chunks, maps rehash), interpreted against HashMap/Vec reference models: equal values share ids, new values get the next dense id, solvable and union ids are always fresh and dense, resolve/lookup return exactly what was interned; REFERENCES (&str, &Name, &VersionSet, &Solvable) obtained from the pool are held across all later insertions and must keep their address and contents. Stage main uses Pool<Vs(u32),String> with u32 records and short strings; stage fat uses 100..160-byte version sets and records, strings of 64..200 bytes that share long prefixes and strings of 520..2000 bytes, and package-name and version-set types whose Hash is coarser than their Eq (legal; the pool must still tell such values apart). Stage bulk ends histories with one or two single-kind phases of 256..12000 fresh items (one arena then spans up to ~90 chunks and several growth steps of its chunk table) and interns unions re-entrantly from inside the exact-size member iterator of another union (inner id first, both dense, both resolvable). Non-trivial: the history crosses >=2 chunk boundaries with >=10 references held across them. Distinct = distinct hash of the history.".into()
    }
    fn describe(&self, tape: &[u16]) -> String {
        let ops = self.decode(tape);
        format!("{} ops ({}): {:?}\n", ops.len(), if self.fat { "fat flavour" } else { "plain flavour" }, &ops[..ops.len().min(60)])
    }
    fn eval(&self, tape: &[u16]) -> CaseReport {
        let ops = self.decode(tape);
        let mut rep = CaseReport {
            evaluations: 1,
            case_hash: hash_of(&format!("{ops:?}")),
            ..Default::default()
        };
        let fat = self.fat;
        let res = crate::run::guarded(|| if fat { c18_history::<Fat>(&ops) } else { c18_history::<Plain>(&ops) });
        match res {
            Ok(Ok((b, h))) => {
                if b >= 2 {
                    rep.labels.push("chunk-boundaries>=2");
                }
                rep.nontrivial = b >= 2 && h >= 10;
            }
            Ok(Err(f)) => rep.failure = Some(f),
            Err(p) => {
                rep.failure = Some(Failure {
                    signature: p.signature(),
                    detail: format!("panic: {} at {}:{}", p.message, p.file, p.line),
                })
            }
        }
        rep
    }
}

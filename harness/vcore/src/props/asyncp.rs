//! C10 (any completion order), C11 (concurrent issue), C12 (cancellation, fault
//! enumeration over poll indices), C13 (solver reuse histories).

use super::common::*;
use super::more::FetchModel;
use crate::gen::*;
use crate::minimize::StructCase;
use crate::model::*;
use crate::provider::{Call, Cancel};
use crate::reference::*;
use crate::run::*;
use crate::runner::*;
use crate::sched::{Policy, Quiescent, ReqKind};
use crate::struct_property;
use crate::tape::Tape;
use std::collections::HashSet;

fn check_outcome_against_reference(
    c: &Case,
    problem: &Problem,
    expected: bool,
    out: &Outcome,
    what: &str,
) -> Option<Failure> {
    let got = match out {
        Outcome::Sat(_) => true,
        Outcome::Unsat(_) => false,
        _ => return None,
    };
    if got != expected {
        return Some(Failure {
            signature: if got {
                "C02:solution-but-reference-unsat".into()
            } else {
                "C02:unsolvable-but-solution-exists".into()
            },
            detail: format!(
                "{what}: resolvo says {}, reference says {}",
                if got { "Ok" } else { "Unsolvable" },
                if expected { "a solution exists" } else { "no solution exists" }
            ),
        });
    }
    if let Outcome::Sat(sol) = out {
        match solution_refs(&c.ix, sol) {
            Err(id) => {
                return Some(Failure {
                    signature: "C01:unknown-id".into(),
                    detail: format!("{what}: unknown solvable id {id}"),
                })
            }
            Ok(refs) => {
                if let Err(inv) = valid(&c.u, problem, &refs, &problem.soft) {
                    return Some(Failure {
                        signature: format!("C01:{}", inv.clause),
                        detail: format!("{what}: {}: {}", inv.clause, inv.detail),
                    });
                }
            }
        }
    }
    None
}

fn hard_verdict(c: &Case, problem: &Problem) -> Option<bool> {
    let hard = Problem {
        soft: vec![],
        ..problem.clone()
    };
    match exists_solution(&c.u, &hard, &[], REF_BUDGET) {
        Exists::Budget => None,
        Exists::Yes(_) => Some(true),
        Exists::No => Some(false),
    }
}

// =============================================================================== C10

pub struct C10 {
    pub params: Params,
    pub stage: &'static str,
    /// enumerate every interleaving (small cases) instead of sampling schedules
    pub exhaustive: bool,
    pub max_schedules: usize,
    /// the provider's sort_candidates makes nested dependency / candidate requests through
    /// the SolverCache (see SortProbe::Deps)
    pub reentrant_sort: bool,
}

impl C10 {
    fn decode(&self, tape: &[u16]) -> StructCase {
        let mut sc = decode_case(tape, &self.params, 0);
        sc.rt = Runtime::Async {
            policy: Policy::Fifo,
            immediate: vec![],
        };
        sc
    }

    fn run_schedule(
        &self,
        c: &Case,
        expected: bool,
        rt: &Runtime,
        rep: &mut CaseReport,
    ) -> Result<(Vec<usize>, StepResult), Failure> {
        let mut session = Session::new(c.u.clone(), rt, None);
        if self.exhaustive {
            // every interleaving is enumerated: keep the choice tree at one completion per request
            session.provider().two_step.set(false);
        }
        if session.provider().two_step.get() && !rep.labels.contains(&"two-step-requests") {
            rep.labels.push("two-step-requests");
        }
        // half of the re-entrant cases: the sort abandons nested requests it would have to wait for
        let abandon = self.reentrant_sort && hash_of(&(&c.problem, c.u.packages.len())) & 1 == 1;
        if self.reentrant_sort {
            session.provider().probe.set(if abandon { crate::provider::SortProbe::DepsAbandon } else { crate::provider::SortProbe::Deps });
        }
        if let Some(sched) = &session.sched {
            // never two requests for one key outstanding at the same time
            *sched.observer.borrow_mut() = Some(Box::new(move |q: &Quiescent| -> Result<(), String> {
                let mut seen = HashSet::new();
                for (kind, key) in q.outstanding.iter() {
                    if matches!(kind, ReqKind::Candidates | ReqKind::Dependencies) && !seen.insert((*kind, *key)) {
                        return Err(format!("quiescent point #{}: two {kind:?} requests for key {key} are outstanding at the same time: {:?}", q.index, q.outstanding));
                    }
                }
                Ok(())
            }));
        }
        let res = session.solve(&c.problem, Cancel::Never, false, false);
        rep.evaluations += 1;
        let what = format!("schedule {rt:?}{}", if abandon { " (sort_candidates abandons nested requests it would have to wait for)" } else { "" });
        if let Outcome::ObserverFail(e) = &res.outcome {
            return Err(Failure {
                signature: "C10:duplicate-provider-request".into(),
                detail: format!("{what}: {e}"),
            });
        }
        if let Some(f) = abnormal(&res.outcome, Cancel::Never) {
            return Err(Failure {
                detail: format!("{what}: {}", f.detail),
                ..f
            });
        }
        if let Some(f) = check_outcome_against_reference(c, &c.problem, expected, &res.outcome, &what) {
            return Err(f);
        }
        let mut model = FetchModel::new();
        if let Err(f) = model.step(c, &c.problem, &res.log, true, false) {
            return Err(Failure {
                detail: format!("{what}: {}", f.detail),
                ..f
            });
        }
        // also "never asks twice" while the first request is still outstanding
        // (a request that its caller abandoned may be made again: then what counts is that it is
        // never outstanding twice - checked at every quiescent point - nor answered twice)
        if abandon {
            let mut answered = HashSet::new();
            for call in &res.log {
                if let Call::Completed(kind @ (ReqKind::Candidates | ReqKind::Dependencies), key) = call {
                    if !answered.insert((*kind, *key)) {
                        return Err(Failure {
                            signature: "C10:duplicate-provider-request".into(),
                            detail: format!("{what}: the {kind:?} request for key {key} was answered twice by the provider"),
                        });
                    }
                }
            }
        }
        for (k, n) in model.deps_started.iter().chain(model.cands_started.iter()) {
            if *n > 1 && !abandon {
                return Err(Failure {
                    signature: "C10:duplicate-provider-request".into(),
                    detail: format!("{what}: key {k} was requested {n} times from the provider"),
                });
            }
        }
        let branching = session
            .sched
            .as_ref()
            .map(|s| s.branching.borrow().clone())
            .unwrap_or_default();
        Ok((branching, res))
    }

    fn check(&self, sc: &StructCase, c: &Case, rep: &mut CaseReport) {
        let Some(expected) = hard_verdict(c, &c.problem) else {
            rep.skipped = Some("reference-budget");
            return;
        };
        rep.labels.push(if expected { "ref-sat" } else { "ref-unsat" });
        let mut t = Tape::new(&sc.extra);
        if self.exhaustive {
            // DFS over the choice tree of completion orders
            let mut script: Vec<usize> = vec![];
            let mut count = 0usize;
            let mut complete = true;
            loop {
                let rt = Runtime::Async {
                    policy: Policy::Script(script.clone()),
                    immediate: vec![],
                };
                let (branching, res) = match self.run_schedule(c, expected, &rt, rep) {
                    Ok(x) => x,
                    Err(f) => {
                        rep.failure = Some(f);
                        return;
                    }
                };
                count += 1;
                if res.quiescent_trace.iter().filter(|&&n| n >= 2).count() >= 2 {
                    rep.nontrivial = true;
                }
                // next script in lexicographic order over the observed branching factors
                let mut s: Vec<usize> = (0..branching.len())
                    .map(|i| script.get(i).copied().unwrap_or(0).min(branching[i] - 1))
                    .collect();
                let mut advanced = false;
                while let Some(last) = s.pop() {
                    let i = s.len();
                    if last + 1 < branching[i] {
                        s.push(last + 1);
                        advanced = true;
                        break;
                    }
                }
                if !advanced {
                    break;
                }
                script = s;
                if count >= self.max_schedules {
                    complete = false;
                    break;
                }
            }
            rep.labels.push(if complete { "all-interleavings" } else { "interleavings-capped" });
            if count >= 10 {
                rep.labels.push("schedules>=10");
            }
            return;
        }
        // sampled schedules: canonical ones + generated choice sequences
        let mut schedules = vec![
            Runtime::Async {
                policy: Policy::Fifo,
                immediate: vec![],
            },
            Runtime::Async {
                policy: Policy::Lifo,
                immediate: vec![],
            },
            Runtime::Async {
                policy: Policy::All,
                immediate: vec![],
            },
        ];
        for _ in 0..3 {
            schedules.push(gen_async_runtime(&mut t));
        }
        let mut polls = 0u64;
        for rt in &schedules {
            match self.run_schedule(c, expected, rt, rep) {
                Ok((_, res)) => {
                    let multi = res.quiescent_trace.iter().filter(|&&n| n >= 2).count();
                    if multi >= 2 && res.out_of_order > 0 {
                        rep.nontrivial = true;
                    }
                    polls = res.polls;
                }
                Err(f) => {
                    rep.failure = Some(f);
                    return;
                }
            }
        }
        // "It never waits on something that cannot complete": a provider that asks the solver
        // to cancel may stop serving - requests that are outstanding at that moment never
        // complete. solve must still return (Cancelled), whatever is in flight.
        // (Not with the re-entrant sort provider: there a poll can be made on behalf of the
        // provider's own nested cache call, whose error `sort_candidates` - which returns
        // nothing - cannot hand back to the solver.)
        if polls > 0 && !self.reentrant_sort {
            let k = (t.next() as u64 * polls) >> 16;
            let cancel = if t.chance(1, 2) { Cancel::Sticky(k) } else { Cancel::Transient(k) };
            let rt = &schedules[t.below(schedules.len())];
            let mut session = Session::new(c.u.clone(), rt, None);
            session.provider().freeze_on_cancel.set(true);
            let res = session.solve(&c.problem, cancel, false, false);
            rep.evaluations += 1;
            if matches!(res.outcome, Outcome::Cancelled(_)) {
                rep.labels.push("cancelled-provider-stops-serving");
            }
            let stuck = matches!(res.outcome, Outcome::Deadlock);
            if let Some(f) = abnormal(&res.outcome, cancel) {
                rep.failure = Some(Failure {
                    signature: if stuck { "deadlock-after-cancellation".into() } else { f.signature.clone() },
                    detail: format!(
                        "schedule {rt:?}, {cancel:?}, the provider completes nothing after it signalled cancellation: {}",
                        if stuck { "solve keeps waiting for requests that can never complete".to_string() } else { f.detail }
                    ),
                });
            }
        }
    }
}

struct_property!(C10, "C10", "tape -> universe + problem; the provider's futures are owned by the harness scheduler: (sampled stage) FIFO, LIFO, complete-everything and 3 generated completion orders (incl. immediately-ready calls); (reentrant-sort stage) the same with a provider whose sort_candidates itself asks the SolverCache for the dependencies of the candidates it sorts and for the candidates of the packages those mention (conda-style ranking; such nested requests can be the first request for a package; in half of these cases the sort drops a nested request it would have to wait for and makes it again, so requests are abandoned while other callers wait for them); (exhaustive stage) EVERY interleaving of small cases by DFS over the scheduler's choice tree (capped, cap counted). For every schedule: solve terminates (deadlock = root pending, not woken, nothing outstanding; step budget), the verdict equals the reference resolver's, Ok(S) passes the C01 predicate, and no get_candidates / get_dependencies key is requested twice; plus one run per case in which the provider signals cancellation at a generated poll and from then on completes NOTHING (outstanding requests stay outstanding): solve must still return. Non-trivial: >=2 quiescent points with >=2 outstanding requests and a completion order different from issue order. Distinct = distinct hash of case.");

// =============================================================================== C11

pub struct C11 {
    pub params: Params,
    pub stage: &'static str,
}

impl C11 {
    fn decode(&self, tape: &[u16]) -> StructCase {
        let mut t = Tape::new(tape);
        let (u, problem) = gen_case(&mut t, &self.params);
        let rt = gen_async_runtime(&mut t);
        // how many earlier solves of this solver were cancelled with all root requests in flight
        let warm = t.next();
        StructCase {
            u,
            problem,
            rt,
            extra: vec![warm],
            more: vec![],
        }
    }

    fn check(&self, sc: &StructCase, c: &Case, rep: &mut CaseReport) {
        rep.evaluations = 1;
        // the concrete instance of the property needs every call to be gated
        let rt = match &sc.rt {
            Runtime::Async { policy, .. } => Runtime::Async {
                policy: policy.clone(),
                immediate: vec![],
            },
            Runtime::Sync => Runtime::Async {
                policy: Policy::Fifo,
                immediate: vec![],
            },
        };
        let mut session = Session::new(c.u.clone(), &rt, None);
        let sched = session.sched.clone().unwrap();
        let log = session.provider().log.clone();
        let u = c.u.clone();
        let ix = c.ix.clone();
        let problem = c.problem.clone();
        // distinct names the root requirements / constraints mention
        let mut root_names: Vec<u32> = vec![];
        for r in &problem.reqs {
            for vs in u.req_vsets(r) {
                let n = u.packages[u.vsets[vs].pkg].name_id;
                if !root_names.contains(&n) {
                    root_names.push(n);
                }
            }
        }
        for &vs in &problem.constraints {
            let n = u.packages[u.vsets[vs].pkg].name_id;
            if !root_names.contains(&n) {
                root_names.push(n);
            }
        }
        let k_root = root_names.len();
        // The solver may have a history: earlier solves of the same problem that the provider
        // cancelled at the moment the last of the root's candidate requests was about to start,
        // i.e. with all the others in flight (they are dropped). Whatever bookkeeping the
        // cache keeps about requests has to survive that; the final solve is then observed.
        let warm_max = if self.params.min_pkgs >= 100 { 9 } else { 3 };
        let warm = sc.extra.first().map_or(0, |&v| (v as usize * warm_max) >> 16);
        if k_root >= 2 {
            for _ in 0..warm {
                let res = session.solve(&c.problem, Cancel::Transient(k_root as u64 - 1), false, false);
                rep.evaluations += 1;
                if let Some(f) = abnormal(&res.outcome, Cancel::Transient(k_root as u64 - 1)) {
                    rep.failure = Some(f);
                    return;
                }
                if matches!(res.outcome, Outcome::Cancelled(_)) {
                    rep.labels.push("after-cancelled-solves");
                }
            }
        }
        let max_outstanding = std::rc::Rc::new(std::cell::Cell::new(0usize));
        let mo = max_outstanding.clone();
        *sched.observer.borrow_mut() = Some(Box::new(move |q: &Quiescent| -> Result<(), String> {
            let log = log.borrow();
            let mut needed: HashSet<u32> = root_names.iter().copied().collect();
            let mut issued: HashSet<u32> = HashSet::new();
            for call in log.iter() {
                match call {
                    Call::GetCandidates(n) => {
                        issued.insert(*n);
                    }
                    Call::Completed(ReqKind::Dependencies, sid) => {
                        if let Some(&s) = ix.solvable.get(sid) {
                            if let Deps::Known { reqs, constrains } = &u.cand(s).deps {
                                for r in reqs {
                                    for vs in u.req_vsets(r) {
                                        needed.insert(u.packages[u.vsets[vs].pkg].name_id);
                                    }
                                }
                                for &vs in constrains {
                                    needed.insert(u.packages[u.vsets[vs].pkg].name_id);
                                }
                            }
                        }
                    }
                    _ => {}
                }
            }
            let cand_outstanding = q
                .outstanding
                .iter()
                .filter(|(k, _)| *k == ReqKind::Candidates)
                .count();
            mo.set(mo.get().max(cand_outstanding));
            let mut missing: Vec<u32> = needed.difference(&issued).copied().collect();
            missing.sort_unstable();
            if !missing.is_empty() {
                return Err(format!(
                    "quiescent point #{}: the solver is blocked on {:?} but get_candidates has not been issued for name ids {:?} although delivered dependency information already mentions them",
                    q.index, q.outstanding, missing
                ));
            }
            // (with nothing required by the root the first requests belong to soft requirements)
            if q.index == 0 && !root_names.is_empty() {
                let mut first: Vec<u32> = q
                    .outstanding
                    .iter()
                    .filter(|(k, _)| *k == ReqKind::Candidates)
                    .map(|(_, n)| *n)
                    .collect();
                first.sort_unstable();
                let mut want = root_names.clone();
                want.sort_unstable();
                if first != want || q.outstanding.len() != want.len() {
                    return Err(format!(
                        "first quiescent point: expected exactly the {} candidate requests {:?} of the root to be in flight, found {:?}",
                        want.len(),
                        want,
                        q.outstanding
                    ));
                }
            }
            Ok(())
        }));
        let res = session.solve(&c.problem, Cancel::Never, false, false);
        rep.labels.push(res.outcome.kind());
        if let Some(f) = abnormal(&res.outcome, Cancel::Never) {
            rep.failure = Some(if f.signature == "quiescence-invariant" {
                Failure {
                    signature: "C11:needed-request-not-issued".into(),
                    ..f
                }
            } else {
                f
            });
            return;
        }
        // The same holds for requests made through the SolverCache by the provider itself
        // (sort_candidates implementations inspect candidates through it): asking for the
        // sorted candidates of a union must put the candidate requests of all its member
        // packages in flight together, not one after another.
        for (ui, un) in c.u.unions.iter().enumerate().take(3) {
            let mut names: Vec<u32> = vec![];
            for &m in &un.members {
                let n = c.u.packages[c.u.vsets[m].pkg].name_id;
                if !names.contains(&n) {
                    names.push(n);
                }
            }
            if names.len() < 2 {
                continue;
            }
            let sched = crate::sched::Sched::new(Policy::Fifo, vec![]);
            let provider = crate::provider::TableProvider::new(c.u.clone()).with_sched(sched.clone());
            let cache = resolvo::SolverCache::new(provider);
            let want = names.len();
            let seen = std::rc::Rc::new(std::cell::Cell::new(usize::MAX));
            let seen2 = seen.clone();
            *sched.observer.borrow_mut() = Some(Box::new(move |q: &Quiescent| -> Result<(), String> {
                if q.index == 0 {
                    seen2.set(q.outstanding.iter().filter(|(k, _)| *k == ReqKind::Candidates).count());
                }
                Ok(())
            }));
            let rt = crate::sched::SchedRuntime { sched: sched.clone() };
            let req = resolvo::Requirement::Union(resolvo::VersionSetUnionId(un.id));
            let r = guarded(|| {
                use resolvo::runtime::AsyncRuntime;
                rt.block_on(cache.get_or_cache_sorted_candidates(req)).map(|v| v.len()).map_err(|_| ())
            });
            rep.evaluations += 1;
            match r {
                Err(p) => {
                    rep.failure = Some(Failure {
                        signature: if p.message.starts_with(crate::sched::DEADLOCK_MSG) { "deadlock".into() } else { p.signature() },
                        detail: format!("SolverCache::get_or_cache_sorted_candidates(union {ui}): {}", p.message),
                    });
                    return;
                }
                Ok(_) => {
                    rep.labels.push("cache-union-probe");
                    if seen.get() != usize::MAX && seen.get() != want {
                        rep.failure = Some(Failure {
                            signature: "C11:union-members-requested-sequentially".into(),
                            detail: format!(
                                "SolverCache::get_or_cache_sorted_candidates on a union over {want} distinct packages had {} get_candidates request(s) in flight at its first quiescent point",
                                seen.get()
                            ),
                        });
                        return;
                    }
                }
            }
        }
        if k_root >= 3 {
            rep.labels.push("root-fanout>=3");
        }
        if max_outstanding.get() >= 3 {
            rep.labels.push("outstanding>=3");
        }
        if max_outstanding.get() > 128 {
            rep.labels.push("outstanding>128");
        }
        rep.nontrivial = max_outstanding.get() >= 3;
    }
}

struct_property!(C11, "C11", "tape -> wide fan-out universe (root with 1..8 requirements, solvables with up to 6 requirements/constrains, unions, soft requirements; stage wide: 130..220 packages and a root with 300..420 requirements, so that well over 128 candidate requests have to be in flight together) + generated completion order, every provider call gated; at EVERY quiescent point (root future pending and not self-woken) the invariant is evaluated: every package name mentioned by the root's requirements/constraints or by any Known dependency result already delivered to the solver has had get_candidates issued; at the first quiescent point exactly the root's distinct candidate requests are in flight. Non-trivial: some quiescent point had >=3 candidate requests outstanding. Distinct = distinct hash of case.", |s: &C11| if s.stage == "wide" { 9000usize } else { 1600 });

// =============================================================================== C12

pub struct C12 {
    pub params: Params,
    pub stage: &'static str,
    /// sample at most this many poll indices per mode (0 = all)
    pub max_indices: usize,
    /// universes that are conflict-free by construction (thousands of root requirements can
    /// then be propagated in one round without an early conflict)
    pub conflict_free: bool,
}

impl C12 {
    fn decode(&self, tape: &[u16]) -> StructCase {
        if self.conflict_free {
            let mut sc = crate::props::more::decode_conflict_free(tape, &self.params, true, 8);
            // In half of the cases one constrains entry between the preferred candidates of two
            // root-required packages makes the problem unsatisfiable. The package of the
            // constraining candidate hints that dependencies are available, so the clause
            // exists when both candidates become units of the root's propagation round: the
            // conflict is met late in a long round, after thousands of clauses have been
            // visited without one.
            let pick = |i: usize| sc.extra.get(i).copied().unwrap_or(0) as usize;
            let roots: Vec<usize> = {
                let mut v: Vec<usize> = sc
                    .problem
                    .reqs
                    .iter()
                    .filter_map(|r| match r {
                        Req::Single(vs) => Some(sc.u.vsets[*vs].pkg),
                        Req::Union(_) => None,
                    })
                    .collect();
                v.sort_unstable();
                v.dedup();
                v
            };
            if pick(60) & 1 == 1 && roots.len() >= 2 {
                let a = roots[pick(61) * roots.len() >> 16];
                let b = roots[pick(62) * roots.len() >> 16];
                if a != b {
                    // the preferred candidate of a requirement = first member of its ranking
                    let first_of = |u: &Universe, pkg: usize| -> Option<usize> {
                        sc.problem.reqs.iter().find_map(|r| match r {
                            Req::Single(vs) if u.vsets[*vs].pkg == pkg => u.vs_ranked(*vs).first().map(|s| s.idx),
                            _ => None,
                        })
                    };
                    if let (Some(ta), Some(tb)) = (first_of(&sc.u, a), first_of(&sc.u, b)) {
                        let nb = sc.u.packages[b].cands.len();
                        let id = sc.u.vsets.iter().map(|v| v.id).max().unwrap_or(0) + 1;
                        sc.u.vsets.push(VSet { id, pkg: b, matches: (0..nb).filter(|&i| i != tb).collect() });
                        let vs = sc.u.vsets.len() - 1;
                        sc.u.packages[a].hint = Hint::All;
                        if let Deps::Known { constrains, .. } = &mut sc.u.packages[a].cands[ta].deps {
                            constrains.push(vs);
                        }
                    }
                }
            }
            return sc;
        }
        decode_case(tape, &self.params, 8)
    }

    fn check(&self, sc: &StructCase, c: &Case, rep: &mut CaseReport) {
        // half of the cases: the provider's version_sets_in_union iterator has no upper size
        // bound (legal for an `impl Iterator`; it changes how the members are awaited)
        let unbounded = sc.extra.get(95).map_or(false, |v| v & 1 == 1);
        if unbounded {
            rep.labels.push("union-iterator-without-upper-bound");
        }
        // dry run: how many polls does the undisturbed solve make?
        let mut session = Session::new(c.u.clone(), &sc.rt, None);
        session.provider().union_iter_unbounded.set(unbounded);
        let dry = session.solve(&c.problem, Cancel::Never, false, false);
        rep.evaluations += 1;
        if let Some(f) = abnormal(&dry.outcome, Cancel::Never) {
            rep.failure = Some(f);
            return;
        }
        let total = dry.polls;
        if std::env::var_os("VERIF_C12_TRACE").is_some() {
            eprintln!("C12 dry run: {} polls, outcome {}, {} root requirements, {} provider calls", total, dry.outcome.kind(), c.problem.reqs.len(), dry.log.len());
        }
        // polls of the hard problem alone (to classify "during a soft requirement's run")
        let hard_polls = if c.problem.soft.is_empty() {
            total
        } else {
            let hard = Problem {
                soft: vec![],
                ..c.problem.clone()
            };
            let mut s2 = Session::new(c.u.clone(), &sc.rt, None);
            s2.solve(&hard, Cancel::Never, false, false).polls
        };
        rep.labels.push(dry.outcome.kind());
        if matches!(sc.rt, Runtime::Async { .. }) {
            rep.labels.push("async");
        }
        let indices: Vec<u64> = if self.max_indices == 0 || total as usize <= self.max_indices {
            (0..total).collect()
        } else {
            // deterministic sample: first 8, last 8 and an even spread
            let mut v: Vec<u64> = (0..8).collect();
            v.extend((total - 8)..total);
            let n = self.max_indices - 16;
            for i in 0..n {
                v.push(8 + (i as u64 * (total - 16)) / n as u64);
            }
            v.sort_unstable();
            v.dedup();
            v
        };
        if total > 64 {
            rep.labels.push("polls>64");
        }
        for &k in &indices {
            for sticky in [false, true] {
                let cancel = if sticky { Cancel::Sticky(k) } else { Cancel::Transient(k) };
                let mut session = Session::new(c.u.clone(), &sc.rt, None);
                session.provider().union_iter_unbounded.set(unbounded);
                // every other index: once the provider has signalled cancellation it completes
                // nothing any more ("promptly" must not depend on outstanding requests)
                let frozen = k % 2 == 1 && session.sched.is_some();
                session.provider().freeze_on_cancel.set(frozen);
                let res = session.solve(&c.problem, cancel, false, false);
                rep.evaluations += 1;
                let what = format!(
                    "cancellation {cancel:?}{} (undisturbed run makes {total} polls)",
                    if frozen { ", after which the provider completes nothing" } else { "" }
                );
                let fired: Vec<(usize, u64, usize)> = res
                    .log
                    .iter()
                    .enumerate()
                    .filter_map(|(i, c)| match c {
                        Call::Poll(v, out) => Some((i, *v, *out)),
                        _ => None,
                    })
                    .collect();
                if fired.is_empty() {
                    rep.failure = Some(Failure {
                        signature: "C12:poll-count-not-reproducible".into(),
                        detail: format!("{what}: poll {k} was never reached"),
                    });
                    return;
                }
                match &res.outcome {
                    Outcome::Cancelled(v) => {
                        let ok = if sticky {
                            *v >= k && fired.iter().any(|(_, f, _)| f == v)
                        } else {
                            *v == k
                        };
                        if !ok {
                            rep.failure = Some(Failure {
                                signature: "C12:wrong-cancellation-value".into(),
                                detail: format!("{what}: Cancelled({v}) but the provider returned {:?}", fired),
                            });
                            return;
                        }
                    }
                    other => {
                        rep.failure = Some(match abnormal(other, cancel) {
                            Some(f) => f,
                            None => Failure {
                                signature: format!("C12:cancellation-ignored:{}", other.kind()),
                                detail: format!(
                                    "{what}: should_cancel_with_value returned a value at poll {k} but solve returned {}",
                                    other.kind()
                                ),
                            },
                        });
                        return;
                    }
                }
                // no provider request may start after the cancellation was observed
                let first_fire = fired[0].0;
                if let Some(late) = res.log[first_fire + 1..]
                    .iter()
                    .find(|c| matches!(c, Call::GetCandidates(_) | Call::GetDependencies(_)))
                {
                    rep.failure = Some(Failure {
                        signature: "C12:request-after-cancellation".into(),
                        detail: format!("{what}: {late:?} was started after the cancellation was signalled"),
                    });
                    return;
                }
                if k >= 2 {
                    rep.labels.push("cancel-after-first-propagation");
                }
                if fired[0].2 >= 1 {
                    rep.labels.push("cancel-with-requests-in-flight");
                    rep.nontrivial = true;
                }
                if k >= hard_polls && !c.problem.soft.is_empty() {
                    rep.labels.push("cancel-during-soft-run");
                    rep.nontrivial = true;
                }
                if k >= 3 {
                    rep.nontrivial = true;
                }
            }
        }
        rep.labels.sort_unstable();
        rep.labels.dedup();
    }
}

struct_property!(C12, "C12", "(asynchronous runs, every other poll index: the provider completes nothing once it has signalled cancellation) tape -> universe + problem (+ soft) + runtime (sync or generated async schedule); a dry run counts the P polls of should_cancel_with_value, then cancellation is INJECTED at poll index k for every k in [0,P) (quick: at most 48 indices per case incl. the first and last 8; thorough: all) in two modes: transient (fires only at poll k) and sticky (fires from k on). Each injected run must return Cancelled carrying exactly the value the provider returned (transient: k; sticky: a returned value >= k), never Ok/Unsolvable, and no get_candidates / get_dependencies may start after the cancellation was signalled. Non-trivial: an injection at k>=3, or with provider requests in flight, or during a soft requirement's run. Distinct = distinct hash of case; evaluations = number of solver runs.");

// =============================================================================== C13

pub struct C13 {
    pub params: Params,
    pub stage: &'static str,
}

impl C13 {
    fn decode(&self, tape: &[u16]) -> StructCase {
        let mut t = Tape::new(tape);
        let mut u = gen_universe(&mut t, &self.params);
        let n_problems = 2 + t.below(2);
        let mut problems = vec![];
        for _ in 0..n_problems {
            problems.push(gen_problem(&mut t, &mut u, &self.params));
        }
        gen_ids(&mut t, &mut u, &self.params);
        let rt = gen_runtime(&mut t, 12);
        // history: 2..5 steps, each (problem index, cancel at poll k or none)
        let steps = 2 + t.below(4);
        let mut extra = vec![];
        let mut more = vec![];
        let first = problems[0].clone();
        for i in 0..steps {
            let pi = if i == 0 { 0 } else { t.below(problems.len()) };
            if i > 0 {
                more.push(problems[pi].clone());
            }
            // cancel: 0 = never, else poll index + 1
            let cancel = if t.chance(1, 3) { 1 + t.below(24) as u16 } else { 0 };
            let sticky = t.chance(1, 2) as u16;
            extra.push(cancel);
            extra.push(sticky);
        }
        StructCase {
            u,
            problem: first,
            rt,
            extra,
            more,
        }
    }

    fn check(&self, sc: &StructCase, c: &Case, rep: &mut CaseReport) {
        let mut problems = vec![c.problem.clone()];
        problems.extend(sc.more.iter().cloned());
        let gated = matches!(sc.rt, Runtime::Async { .. });
        let mut session = Session::new(c.u.clone(), &sc.rt, None);
        // a third of the histories: the provider's sort_candidates re-enters the cache
        let reentrant = hash_of(&(&c.problem, sc.more.len(), c.u.vsets.len())) % 3 == 0;
        if reentrant {
            session.provider().probe.set(crate::provider::SortProbe::Deps);
            rep.labels.push("re-entrant-sort");
        }
        let mut model = FetchModel::new();
        let mut prev_kind: Option<&'static str> = None;
        let mut touched_again = false;
        let mut after_abnormal_end = false;
        for (i, p) in problems.iter().enumerate() {
            let cancel_raw = sc.extra.get(2 * i).copied().unwrap_or(0);
            let sticky = sc.extra.get(2 * i + 1).copied().unwrap_or(0) == 1;
            let cancel = match cancel_raw {
                0 => Cancel::Never,
                // (no cancellation with the re-entrant provider: the poll that fires may be one
                // made on behalf of the provider's own nested call, whose error sort_candidates
                // cannot hand back - the solver then never observes it)
                _ if reentrant => Cancel::Never,
                k if sticky => Cancel::Sticky(k as u64 - 1),
                k => Cancel::Transient(k as u64 - 1),
            };
            // a provider that cancels stops serving: what is outstanding then never completes;
            // it serves again for the next call
            let freeze = gated && !reentrant && cancel != Cancel::Never && cancel_raw % 2 == 0;
            session.provider().freeze_on_cancel.set(freeze);
            if let Some(s) = &session.sched {
                s.frozen.set(false);
            }
            let Some(expected) = hard_verdict(c, p) else {
                rep.skipped = Some("reference-budget");
                return;
            };
            // does this step's problem mention a package whose candidates an earlier step fetched?
            let reuses_metadata = p
                .reqs
                .iter()
                .flat_map(|r| c.u.req_vsets(r))
                .chain(p.constraints.iter().copied())
                .any(|vs| model.cands_completed.contains(&c.u.packages[c.u.vsets[vs].pkg].name_id));
            let res = session.solve(p, cancel, false, false);
            rep.evaluations += 1;
            let what = format!("step {i} ({cancel:?}, after {:?})", prev_kind);
            let fired = res.log.iter().any(|c| matches!(c, Call::Poll(..)));
            if let Some(f) = abnormal(&res.outcome, if fired { cancel } else { Cancel::Never }) {
                rep.failure = Some(Failure {
                    detail: format!("{what}: {}", f.detail),
                    ..f
                });
                return;
            }
            match (&res.outcome, fired) {
                (Outcome::Cancelled(_), true) => {}
                (other, true) => {
                    rep.failure = Some(Failure {
                        signature: format!("C12:cancellation-ignored:{}", other.kind()),
                        detail: format!("{what}: cancellation fired but solve returned {}", other.kind()),
                    });
                    return;
                }
                (out, false) => {
                    if let Some(f) = check_outcome_against_reference(c, p, expected, out, &what) {
                        rep.failure = Some(f);
                        return;
                    }
                }
            }
            if let Err(f) = model.step(c, p, &res.log, gated, false) {
                rep.failure = Some(Failure {
                    signature: f.signature.replace("C09:", "C13:"),
                    detail: format!("{what}: {}", f.detail),
                });
                return;
            }
            // did this step need metadata that an earlier step had fetched? (it made fewer
            // provider calls than a fresh solver would) - approximated by: earlier steps
            // completed requests and this step completed fewer new ones than it mentions.
            if i > 0 && reuses_metadata {
                touched_again = true;
            }
            if i > 0 && matches!(prev_kind, Some("cancelled") | Some("unsat")) {
                after_abnormal_end = true;
            }
            prev_kind = Some(res.outcome.kind());
            rep.labels.push(res.outcome.kind());
        }
        if after_abnormal_end {
            rep.labels.push("step-after-cancel-or-unsat");
        }
        if gated {
            rep.labels.push("async");
        }
        rep.nontrivial = problems.len() >= 2 && (touched_again || after_abnormal_end);
        rep.labels.sort_unstable();
        rep.labels.dedup();
    }
}

struct_property!(C13, "C13", "tape -> universe + HISTORY of 2..5 solve calls on ONE solver (same or different problems incl. soft requirements, sat and unsat, optional cancellation injected at a generated poll index in transient or sticky mode, sync or async with a generated completion order so cancellation happens while requests are in flight, mixed hints; in half of the cancelled asynchronous steps the provider completes nothing once it has signalled cancellation and serves again for the next call; in a third of the histories the provider's sort_candidates re-enters the SolverCache). Each step must terminate (deadlock / step budget), return Cancelled iff cancellation fired, otherwise the reference verdict of that step's problem with a solution that passes the C01 predicate; no get_candidates / get_dependencies key that COMPLETED in an earlier step may be requested again. Non-trivial: a later step runs after metadata was fetched by an earlier one, or follows a cancelled / unsat step. Distinct = distinct hash of case.");

//! C04, stage `deep-chain`: dependency chains thousands of packages deep.
//!
//! Random universes have dependency graphs whose depth is logarithmic in their size, so a
//! code path whose stack use (or running time) grows with the *depth* of the dependency
//! path - a recursive graph walk, a renderer that re-visits - is never stressed by them.
//! This stage constructs the depth directly: a tape decodes to (shape, depth, runtime) and
//! the universe is built from that. It runs in a child process (`Profile::Isolated`) on a
//! thread with a fixed 2 MiB stack (the default of a spawned Rust thread), so that a stack overflow / abort of the tested code is
//! observed by the parent and reported as a violation with the tape that caused it.

use crate::model::*;
use crate::provider::Cancel;
use crate::props::common::abnormal;
use crate::run::*;
use crate::runner::{hash_of, CaseReport, Failure, Property};
use crate::sched::Policy;
use crate::tape::Tape;
use std::rc::Rc;

pub struct C04Deep {
    /// "C04": only crashes / panics / budgets / rendering bounds are verdicts;
    /// "C02": the outcome fixed by the construction is compared as well
    pub id: &'static str,
    pub stage: &'static str,
    pub max_depth: usize,
    /// longest soft-requirement list of the `many-soft-requirements` shape
    pub max_soft: usize,
    /// only the `many-soft-requirements` shape (C14's copy of the stage)
    pub only_soft: bool,
}

#[derive(Clone, Debug, PartialEq, Eq, Hash)]
pub struct DeepCase {
    pub shape: usize,
    pub depth: usize,
    pub asynchronous: bool,
    pub hints: bool,
}

pub const SHAPES: [&str; 7] = [
    "chain-ends-in-missing-package",
    "chain-ends-in-excluded-candidate",
    "satisfiable-chain",
    "chain-closes-into-cycle-with-empty-set",
    "ladder-with-dead-end",
    "two-chains-meet-in-conflict",
    "many-soft-requirements",
];

impl C04Deep {
    pub fn decode(&self, tape: &[u16]) -> DeepCase {
        let mut t = Tape::new(tape);
        let shape = if self.only_soft {
            t.next();
            6
        } else {
            t.weighted(&[2, 2, 2, 2, 2, 2, 3])
        };
        // log-uniform depth in [128, max_depth]
        let max = self.max_depth.max(64);
        let bits = (usize::BITS - max.leading_zeros()) as usize;
        let e = 7 + t.below(bits.saturating_sub(7).max(1));
        let mut depth = ((1usize << e) + t.below(1 << e)).min(max);
        let asynchronous = t.chance(1, 4);
        let hints = t.chance(1, 4);
        // the quadratic shapes and the scheduler-driven runtime are kept to a few thousand
        if shape == 4 {
            depth = depth.min(400);
        }
        if asynchronous || hints {
            depth = depth.min(6000);
        }
        if shape == 6 {
            // every soft requirement opens a decision level of its own, accepted or not: a
            // long list (all entries of an old lock file) is the cheap way to tens of
            // thousands of levels
            depth = if t.chance(1, 2) { self.max_soft / 2 + t.below(self.max_soft / 2 + 1) } else { (depth * 4).min(self.max_soft) };
            if asynchronous {
                depth = depth.min(6000);
            }
        }
        DeepCase { shape, depth, asynchronous, hints }
    }

    pub fn build(&self, dc: &DeepCase) -> (Universe, Problem) {
        let n = dc.depth;
        let mut u = Universe::default();
        u.strings.push(Str { id: 0, text: "excluded for testing".into() });
        let hint = if dc.hints { Hint::All } else { Hint::None };
        let pkg = |i: usize, ncand: usize, hint: &Hint| Package {
            name_id: i as u32,
            name: format!("p{i}"),
            missing: false,
            cands: (0..ncand)
                .map(|c| Cand { sid: 0, version: (c + 1) as u32, deps: Deps::empty(), excluded: None })
                .collect(),
            sort_rank: (0..ncand).collect(),
            favored: None,
            locked: None,
            lock_gone: false,
            hint_unlisted: false,
            hint: hint.clone(),
            unlisted: vec![],
        };
        let any_vs = |u: &mut Universe, p: usize| -> usize {
            let ncand = u.packages[p].cands.len();
            u.vsets.push(VSet { id: 0, pkg: p, matches: (0..ncand).collect() });
            u.vsets.len() - 1
        };
        let set_reqs = |u: &mut Universe, p: usize, c: usize, reqs: Vec<Req>| {
            u.packages[p].cands[c].deps = Deps::Known { reqs, constrains: vec![] };
        };
        let mut problem = Problem::default();
        match dc.shape {
            0 | 1 | 2 | 3 => {
                for i in 0..n {
                    u.packages.push(pkg(i, 1, &hint));
                }
                for i in 0..n.saturating_sub(1) {
                    let v = any_vs(&mut u, i + 1);
                    set_reqs(&mut u, i, 0, vec![Req::Single(v)]);
                }
                match dc.shape {
                    0 => {
                        let mut m = pkg(n, 0, &Hint::None);
                        m.missing = true;
                        u.packages.push(m);
                        let v = any_vs(&mut u, n);
                        set_reqs(&mut u, n - 1, 0, vec![Req::Single(v)]);
                    }
                    1 => {
                        u.packages[n - 1].cands[0].excluded = Some(0);
                    }
                    2 => {}
                    _ => {
                        // the last package requires an empty version set of the first one
                        u.vsets.push(VSet { id: 0, pkg: 0, matches: vec![] });
                        let v = u.vsets.len() - 1;
                        set_reqs(&mut u, n - 1, 0, vec![Req::Single(v)]);
                    }
                }
                let v = any_vs(&mut u, 0);
                problem.reqs.push(Req::Single(v));
            }
            4 => {
                // every package has a preferred candidate that leads one level deeper and a
                // fallback without dependencies; the bottom is excluded, so the search walks
                // down, fails and has to climb back up through learnt clauses
                for i in 0..n {
                    u.packages.push(pkg(i, 2, &hint));
                }
                for i in 0..n - 1 {
                    let v = any_vs(&mut u, i + 1);
                    set_reqs(&mut u, i, 0, vec![Req::Single(v)]);
                    // the fallback of every level also needs the level below
                    set_reqs(&mut u, i, 1, vec![Req::Single(v)]);
                }
                u.packages[n - 1].cands[0].excluded = Some(0);
                u.packages[n - 1].cands[1].excluded = Some(0);
                let v = any_vs(&mut u, 0);
                problem.reqs.push(Req::Single(v));
            }
            6 => {
                // root requires p0 -> p1 -> p2; the soft list names one candidate of each of
                // `n` further packages; every third has Unknown dependencies (must be skipped),
                // every seventh is excluded, the others are installable
                u.strings.push(Str { id: 1, text: "metadata unavailable".into() });
                for i in 0..3 + n {
                    u.packages.push(pkg(i, 1, &hint));
                }
                for i in 0..2 {
                    let v = any_vs(&mut u, i + 1);
                    set_reqs(&mut u, i, 0, vec![Req::Single(v)]);
                }
                for i in 0..n {
                    if i % 3 == 1 {
                        u.packages[3 + i].cands[0].deps = Deps::Unknown(1);
                    } else if i % 7 == 2 {
                        u.packages[3 + i].cands[0].excluded = Some(0);
                    }
                    problem.soft.push(SRef { pkg: 3 + i, idx: 0, listed: true });
                }
                let v = any_vs(&mut u, 0);
                problem.reqs.push(Req::Single(v));
            }
            _ => {
                // root requires a0 and b0; both chains end in requirements on different
                // candidates of one shared package
                let half = (n / 2).max(2);
                for i in 0..2 * half {
                    u.packages.push(pkg(i, 1, &hint));
                }
                let shared = 2 * half;
                u.packages.push(pkg(shared, 2, &Hint::None));
                for base in [0, half] {
                    for i in 0..half - 1 {
                        let v = any_vs(&mut u, base + i + 1);
                        set_reqs(&mut u, base + i, 0, vec![Req::Single(v)]);
                    }
                }
                u.vsets.push(VSet { id: 0, pkg: shared, matches: vec![0] });
                let v0 = u.vsets.len() - 1;
                u.vsets.push(VSet { id: 0, pkg: shared, matches: vec![1] });
                let v1 = u.vsets.len() - 1;
                set_reqs(&mut u, half - 1, 0, vec![Req::Single(v0)]);
                set_reqs(&mut u, 2 * half - 1, 0, vec![Req::Single(v1)]);
                let a = any_vs(&mut u, 0);
                let b = any_vs(&mut u, half);
                problem.reqs.push(Req::Single(a));
                problem.reqs.push(Req::Single(b));
            }
        }
        // dense ids in construction order
        let mut sid = 0u32;
        for p in u.packages.iter_mut() {
            for c in p.cands.iter_mut() {
                c.sid = sid;
                sid += 1;
            }
        }
        for (i, v) in u.vsets.iter_mut().enumerate() {
            v.id = i as u32;
        }
        (u, problem)
    }

    fn run(&self, dc: &DeepCase) -> CaseReport {
        let mut rep = CaseReport {
            evaluations: 1,
            case_hash: hash_of(dc),
            ..Default::default()
        };
        let (u, problem) = self.build(dc);
        let rt = if dc.asynchronous {
            Runtime::Async { policy: Policy::Fifo, immediate: vec![] }
        } else {
            Runtime::Sync
        };
        let cfg = RunCfg { runtime: rt, labels: false, render: true, ..Default::default() };
        let mut session = Session::new(Rc::new(u), &cfg.runtime, None);
        if dc.shape == 4 {
            // the ladder needs a restart per level: quadratically many propagation rounds
            session.provider().poll_budget.set(50_000 + 16 * (dc.depth as u64).pow(2));
        }
        let res = session.solve(&problem, Cancel::Never, false, true);
        if std::env::var_os("VERIF_DEEP_TRACE").is_some() {
            eprintln!("deep {:?}: polls={} outcome={}", dc, res.polls, res.outcome.kind());
        }
        rep.labels.push(res.outcome.kind());
        rep.labels.push(SHAPES[dc.shape]);
        if dc.depth >= 1000 {
            rep.labels.push("depth>=1000");
        }
        if dc.depth >= 10_000 {
            rep.labels.push("depth>=10000");
        }
        if dc.depth >= 30_000 {
            rep.labels.push("depth>=30000");
        }
        if dc.asynchronous {
            rep.labels.push("async");
        }
        if dc.hints {
            rep.labels.push("hint");
        }
        rep.nontrivial = dc.depth >= 1000;
        if let Some(f) = abnormal(&res.outcome, Cancel::Never) {
            rep.failure = Some(f);
            return rep;
        }
        // by construction: shapes 0,1,3,4,5 have no solution, shape 2 has exactly one
        let expect_sat = dc.shape == 2 || dc.shape == 6;
        if let (6, Outcome::Sat(sol)) = (dc.shape, &res.outcome) {
            // ids are dense in construction order: soft package i has solvable id 3 + i
            if self.id == "C14" {
                // every entry that is neither Unknown nor excluded is installable next to
                // everything else (one candidate, no dependencies): it must be in the solution
                let have: std::collections::HashSet<u32> = sol.iter().copied().collect();
                if let Some(i) = (0..dc.depth).find(|&i| i % 3 != 1 && i % 7 != 2 && !have.contains(&(3 + i as u32))) {
                    rep.failure = Some(Failure {
                        signature: "C14:compatible-soft-requirement-dropped".into(),
                        detail: format!("soft requirement #{i} of {} (p{}=1: one candidate, no dependencies, mentioned by nothing else) is not in the solution of {} solvables", dc.depth, 3 + i, sol.len()),
                    });
                    return rep;
                }
                if let Some(i) = (0..dc.depth).find(|&i| i % 3 != 1 && i % 7 == 2 && !have.contains(&(3 + i as u32))) {
                    // a soft requirement named directly is exempt from its own exclusion
                    let _ = i;
                    rep.labels.push("excluded-soft-requirement-skipped");
                }
            }
            if let Some(bad) = sol.iter().find(|&&id| id >= 3 && (id as usize - 3) % 3 == 1) {
                if self.id == "C02" || self.id == "C14" {
                    rep.failure = Some(Failure {
                        signature: "C01:unknown-deps-selected".into(),
                        detail: format!("soft requirement with Unknown dependencies (solvable id {bad}) is part of the solution ({} soft requirements)", dc.depth),
                    });
                    return rep;
                }
                rep.labels.push("outcome-differs-from-construction");
            }
        }
        match &res.outcome {
            Outcome::Sat(_) if dc.shape == 6 => {}
            Outcome::Sat(s) if expect_sat && s.len() == dc.depth => {}
            Outcome::Unsat(_) if !expect_sat => {}
            _ if self.id == "C04" => rep.labels.push("outcome-differs-from-construction"),
            _ if self.id == "C14" => {
                rep.failure = Some(Failure {
                    signature: "C14:soft-requirements-caused-unsolvable".into(),
                    detail: format!("the hard problem (a chain of three packages) is solvable; with {} soft requirements solve returned {}", dc.depth, res.outcome.kind()),
                });
            }
            o => {
                let signature = match o {
                    Outcome::Sat(_) if expect_sat => "C01:requirement-unmet",
                    Outcome::Sat(_) => "C02:solution-but-reference-unsat",
                    _ => "C02:unsolvable-but-solution-exists",
                };
                rep.failure = Some(Failure {
                    signature: signature.into(),
                    detail: format!("{} with depth {}: solve returned {} ({} solvables)", SHAPES[dc.shape], dc.depth, o.kind(), if let Outcome::Sat(s) = o { s.len() } else { 0 }),
                });
            }
        }
        rep
    }
}

impl Property for C04Deep {
    fn id(&self) -> &'static str {
        self.id
    }
    fn stage(&self) -> &'static str {
        self.stage
    }
    fn max_tape(&self) -> usize {
        9
    }
    fn shrink_budget(&self) -> usize {
        40
    }
    fn hang_secs(&self) -> u64 {
        900
    }
    fn rule(&self) -> String {
        "tape -> (shape, depth log-uniform in 128..=max, sync/async, hints) -> constructed universe whose dependency PATH is `depth` packages long (chain into a missing package / an excluded candidate / an empty set of the first package, satisfiable chain, two-candidate ladder with a dead end, two chains meeting in a conflict; or a soft-requirement list of up to max_soft entries (half of the lists longer than max_soft/2), a third of them with Unknown dependencies: every entry opens a decision level); evaluated in a child process on a thread with a 2 MiB stack (std's default for spawned threads): solve, Conflict::graph, graphviz and the user-friendly message (written into a writer capped at 8 MiB) must finish without panic, abort or stack overflow and within the poll budget; in C02's copy of the stage the outcome must also be the one the construction fixes (chain shapes have exactly one or no solution). Non-trivial: depth >= 1000. Distinct = distinct (shape, depth, runtime, hints).".into()
    }
    fn describe(&self, tape: &[u16]) -> String {
        let dc = self.decode(tape);
        format!("{} depth={} async={} hints={}\n", SHAPES[dc.shape], dc.depth, dc.asynchronous, dc.hints)
    }
    fn eval(&self, tape: &[u16]) -> CaseReport {
        let dc = self.decode(tape);
        // fixed stack size, independent of `ulimit -s` and of which thread runs the case:
        // 2 MiB, the default of std::thread::spawn (and of tokio's workers)
        let stack_kb: usize = std::env::var("VERIF_DEEP_STACK_KB").ok().and_then(|s| s.parse().ok()).unwrap_or(2048);
        let this: &C04Deep = self;
        std::thread::scope(|s| {
            std::thread::Builder::new()
                .stack_size(stack_kb << 10)
                .spawn_scoped(s, move || this.run(&dc))
                .expect("spawn")
                .join()
                .unwrap_or_else(|_| CaseReport {
                    evaluations: 1,
                    failure: Some(Failure { signature: "panic@harness-thread".into(), detail: "the evaluation thread panicked outside the guarded region".into() }),
                    ..Default::default()
                })
        })
    }
}

pub mod asyncp;
pub mod common;
pub mod more;
pub mod registry;
pub mod solve;

pub mod amo;
pub mod asyncp;
pub mod cachesnap;
pub mod common;
pub mod containers;
pub mod more;
pub mod registry;
pub mod solve;

pub mod common;
pub mod registry;
pub mod solve;

//! C06 (reproducibility), C07 (first-choice closure), C08 (direct requirements),
//! C09 (lazy/causal/at-most-once fetching), C14 (soft requirements).

use super::common::*;
use super::solve::label_search;
use crate::gen::*;
use crate::minimize::StructCase;
use crate::model::*;
use crate::provider::{Call, Cancel};
use crate::reference::*;
use crate::run::*;
use crate::runner::*;
use crate::sched::ReqKind;
use crate::struct_property;
use crate::tape::Tape;
use std::collections::{BTreeSet, HashMap, HashSet};
use std::sync::Mutex;

// =============================================================================== C06

/// (case hash -> observation hash) of every case evaluated in this process; compared with
/// the maps produced by freshly started child processes.
pub static C06_OBS: Mutex<Vec<(u64, u64)>> = Mutex::new(Vec::new());

/// Observations of another process (file named by VERIF_C06_REF: JSON list of
/// [case hash, observation hash]); when present every case is compared against it.
pub fn c06_reference() -> &'static HashMap<u64, u64> {
    static REF: std::sync::OnceLock<HashMap<u64, u64>> = std::sync::OnceLock::new();
    REF.get_or_init(|| match std::env::var("VERIF_C06_REF") {
        Ok(path) => {
            let text = std::fs::read_to_string(&path).unwrap_or_else(|e| panic!("HARNESS: cannot read {path}: {e}"));
            let v: Vec<(u64, u64)> = serde_json::from_str(&text).expect("HARNESS: C06 reference file");
            v.into_iter().collect()
        }
        Err(_) => HashMap::new(),
    })
}

pub struct C06 {
    pub params: Params,
    pub stage: &'static str,
    pub repeats: usize,
}

pub fn observation(out: &Outcome) -> Option<String> {
    match out {
        Outcome::Sat(s) => Some(format!("SAT {s:?}")),
        Outcome::Unsat(d) => Some(format!("UNSAT\n{}\n{}\n{}", d.message, d.dot, d.dot_simplified)),
        _ => None,
    }
}

impl C06 {
    fn decode(&self, tape: &[u16]) -> StructCase {
        decode_case(tape, &self.params, 0)
    }

    fn check(&self, sc: &StructCase, c: &Case, rep: &mut CaseReport) {
        // The configuration is part of "the same problem": activity parameters are a public
        // knob (any f32 pair), and a solver may already have been used for an earlier solve.
        let pick = |i: usize, n: usize| (sc.extra.get(i).copied().unwrap_or(0) as usize * n) >> 16;
        let activity = match pick(0, 6) {
            0 | 1 | 2 => None,
            3 => Some((0.0, 1.0)),
            4 => Some((10.0, 0.5)),
            _ => Some((3.0e20, 0.95)),
        };
        if activity.is_some() {
            rep.labels.push("non-default-activity-parameters");
        }
        // observation of a history: an earlier solve (of a sub-problem) on the same solver
        let warm: Option<Problem> = if pick(1, 2) == 1 && !c.problem.reqs.is_empty() {
            rep.labels.push("second-solve-on-a-used-solver");
            let keep = 1 + pick(2, c.problem.reqs.len());
            Some(Problem {
                reqs: c.problem.reqs.iter().take(keep).cloned().collect(),
                constraints: vec![],
                soft: vec![],
            })
        } else {
            None
        };
        let mut first: Option<String> = None;
        for i in 0..self.repeats {
            let mut session = Session::new(c.u.clone(), &Runtime::Sync, activity);
            // a third of the cases: the provider's sort is stable but ties pairs of candidates
            // (builds of one version): still a deterministic provider
            session.provider().sort_ties.set(pick(3, 3) == 1);
            let mut obs = String::new();
            if let Some(w) = &warm {
                let r0 = session.solve(w, Cancel::Never, false, true);
                rep.evaluations += 1;
                if let Some(f) = abnormal(&r0.outcome, Cancel::Never) {
                    rep.failure = Some(f);
                    return;
                }
                obs.push_str(&observation(&r0.outcome).unwrap_or_default());
                obs.push_str("\n--- then, on the same solver ---\n");
            }
            let res = session.solve(&c.problem, Cancel::Never, i == 0, true);
            rep.evaluations += 1;
            if let Some(f) = abnormal(&res.outcome, Cancel::Never) {
                rep.failure = Some(f);
                return;
            }
            if i == 0 {
                rep.labels.push(res.outcome.kind());
                label_search(&res.labels, &mut rep.labels);
                let mergeable = matches!(&res.outcome, Outcome::Unsat(d) if d.dot != d.dot_simplified);
                if mergeable {
                    rep.labels.push("merged-siblings");
                }
                rep.nontrivial = res.labels.learnt >= 1 || mergeable;
            }
            obs.push_str(&observation(&res.outcome).unwrap_or_default());
            match &first {
                None => first = Some(obs),
                Some(f) if *f != obs => {
                    rep.failure = Some(Failure {
                        signature: format!(
                            "C06:in-process-divergence:{}",
                            if f.contains("UNSAT") { "conflict" } else { "solution" }
                        ),
                        detail: format!("run 0 observed:\n{f}\nrun {i} observed:\n{obs}"),
                    });
                    return;
                }
                _ => {}
            }
        }
        if let Some(f) = first {
            let h = hash_of(&f);
            C06_OBS.lock().unwrap().push((rep.case_hash, h));
            if let Some(&other) = c06_reference().get(&rep.case_hash) {
                rep.labels.push("compared-cross-process");
                if other != h {
                    rep.failure = Some(Failure {
                        signature: "C06:cross-process-divergence".into(),
                        detail: format!(
                            "this process observed (hash {h:016x}):\n{f}\nanother process observed a different result (hash {other:016x}) for the same case"
                        ),
                    });
                }
            }
        }
    }
}

struct_property!(C06, "C06", "tape -> mixed sat/unsat universe + problem, deterministic non-yielding provider; each case is solved 4 times with fresh solvers in this process (every ahash RandomState gets fresh keys) and the whole batch again in 2-3 freshly started processes (new per-process hash seeds, new address layout); the observation (solution vector in order, or conflict message + both graphviz renderings) must be byte-identical. The configuration belongs to the case: generated activity parameters (default, (0,1), (10,0.5), (3e20,0.95)), a provider sort that ties pairs of candidates (a third of the cases), and in half of the cases the observation is a HISTORY - a sub-problem solved first on the same solver, then the problem. Non-trivial: >=1 learnt clause, or an unsat case whose simplified graph merged sibling candidates. Distinct = distinct hash of case.");

// =============================================================================== C07

pub struct C07 {
    pub params: Params,
    pub stage: &'static str,
}

pub fn decode_conflict_free(tape: &[u16], params: &Params, hints: bool, async_weight: u32) -> StructCase {
    let split = tape.len().min(64);
    let (head, tail) = tape.split_at(split);
    let mut t = Tape::new(tail);
    let (mut u, problem) = gen_conflict_free(&mut t, params, hints);
    // Packages outside the first-choice closure G are only ever mentioned by later union
    // members or by candidates that are never selected: whatever they favor does not change
    // G, and must not make the solver look at them either.
    if let Some(g) = first_choice_closure(&u, &problem) {
        for (pi, pk) in u.packages.iter_mut().enumerate() {
            if pk.cands.is_empty() || g.iter().any(|s| s.pkg == pi) {
                continue;
            }
            if let Some(&v) = head.get(32 + pi % 32) {
                if v & 1 == 1 {
                    pk.favored = Some((v as usize >> 1) % pk.cands.len());
                }
            }
        }
    }
    let rt = if async_weight == 0 {
        Runtime::Sync
    } else {
        gen_runtime(&mut t, async_weight)
    };
    StructCase {
        u,
        problem,
        rt,
        extra: head.to_vec(),
        more: vec![],
    }
}

impl C07 {
    fn decode(&self, tape: &[u16]) -> StructCase {
        decode_conflict_free(tape, &self.params, true, 8)
    }

    fn check(&self, sc: &StructCase, c: &Case, rep: &mut CaseReport) {
        let Some(g) = first_choice_closure(&c.u, &c.problem) else {
            rep.skipped = Some("precondition-false");
            return;
        };
        rep.evaluations = 1;
        size_labels(&c.u, &mut rep.labels);
        let cfg = RunCfg {
            runtime: sc.rt.clone(),
            labels: false,
            render: false,
            ..Default::default()
        };
        let res = run_once(&c.u, &c.problem, &cfg);
        rep.labels.push(res.outcome.kind());
        if matches!(sc.rt, Runtime::Async { .. }) {
            rep.labels.push("async");
        }
        if let Some(f) = abnormal(&res.outcome, Cancel::Never) {
            rep.failure = Some(f);
            return;
        }
        let favored_non_top = g.iter().any(|s| {
            let p = &c.u.packages[s.pkg];
            p.favored == Some(s.idx) && p.sort_rank.first() != Some(&s.idx)
        });
        let has_union = c.problem.reqs.iter().any(|r| matches!(r, Req::Union(_)))
            || g.iter().any(|&s| match &c.u.cand(s).deps {
                Deps::Known { reqs, .. } => reqs.iter().any(|r| matches!(r, Req::Union(_))),
                _ => false,
            });
        if favored_non_top {
            rep.labels.push("favored-non-top");
        }
        if has_union {
            rep.labels.push("union");
        }
        if g.len() >= 4 {
            rep.labels.push("|G|>=4");
        }
        rep.nontrivial = g.len() >= 4 && (favored_non_top || has_union);
        match &res.outcome {
            Outcome::Sat(sol) => {
                let got: Result<BTreeSet<SRef>, u32> = solution_refs(&c.ix, sol).map(|v| v.into_iter().collect());
                if got.as_ref().ok() != Some(&g) {
                    rep.failure = Some(Failure {
                        signature: "C07:not-first-choice-closure".into(),
                        detail: format!(
                            "expected exactly {:?}, got {:?}",
                            g.iter().map(|&s| c.u.display_solvable(s)).collect::<Vec<_>>(),
                            got.map(|s| s.iter().map(|&s| c.u.display_solvable(s)).collect::<Vec<_>>())
                        ),
                    });
                }
            }
            other => {
                rep.failure = Some(Failure {
                    signature: "C07:conflict-free-but-not-solved".into(),
                    detail: format!("first-choice closure exists but solve returned {}", other.kind()),
                });
            }
        }
    }
}

struct_property!(C07, "C07", "tape -> universe that is conflict-free by construction (every package has a target candidate, requirements issued by root/targets rank the required package's target first, constrains/locks admit targets, exclusions/Unknown and arbitrary noisy dependencies only on non-targets; chains, diamonds, cycles, unions; any favored assignment, any hint pattern, sync or generated async schedule). The reference computes the first-choice closure G and re-verifies the precondition independently (else the case is skipped and counted); solve must return exactly G. Stage wide: 100..160 packages, more than 256 solvables and sparse ids beyond 512. Non-trivial: |G|>=4 and (a favored target that is not top-ranked, or a union). Distinct = distinct hash of case.", |s: &C07| match s.stage { "wide" => 8000usize, "huge" => 60_000, _ => 1600 });

// =============================================================================== C08

pub struct C08 {
    pub params: Params,
    pub stage: &'static str,
    /// precondition true by construction (gen_direct_best) instead of by chance
    pub constructed: bool,
}

impl C08 {
    fn decode(&self, tape: &[u16]) -> StructCase {
        let mut p = self.params.clone();
        p.p_root_union = 0;
        p.max_soft = 0;
        if self.constructed {
            let split = tape.len().min(64);
            let (head, tail) = tape.split_at(split);
            let mut t = Tape::new(tail);
            let (u, problem) = gen_direct_best(&mut t, &p);
            let rt = gen_runtime(&mut t, 3);
            return StructCase {
                u,
                problem,
                rt,
                extra: head.to_vec(),
                more: vec![],
            };
        }
        decode_case(tape, &p, 3)
    }

    fn check(&self, sc: &StructCase, c: &Case, rep: &mut CaseReport) {
        let mut f: Vec<SRef> = vec![];
        for r in &c.problem.reqs {
            match c.u.req_ranked(r).first() {
                Some(&x) => {
                    if !f.contains(&x) {
                        f.push(x)
                    }
                }
                None => {
                    rep.skipped = Some("requirement-without-candidates");
                    return;
                }
            }
        }
        let hard = Problem {
            soft: vec![],
            ..c.problem.clone()
        };
        let pre = match exists_solution(&c.u, &hard, &f, REF_BUDGET) {
            Exists::Budget => {
                rep.skipped = Some("reference-budget");
                return;
            }
            Exists::Yes(_) => true,
            Exists::No => false,
        };
        if !pre {
            rep.skipped = Some("precondition-false");
            return;
        }
        rep.evaluations = 1;
        let act = [None, Some((0.0f32, 1.0f32)), Some((10.0, 0.5))][sc.extra.first().copied().unwrap_or(0) as usize % 3];
        let cfg = RunCfg {
            runtime: sc.rt.clone(),
            activity: act,
            labels: true,
            render: false,
            ..Default::default()
        };
        let mut session = Session::new(c.u.clone(), &cfg.runtime, cfg.activity);
        // The property does not depend on what the solver was used for before: in half of the
        // cases a DIFFERENT problem over the same universe is solved first on the same solver.
        let ex = &sc.extra;
        if ex.get(1).map_or(false, |v| v & 1 == 1) && !c.u.vsets.is_empty() {
            let k = 1 + ex.get(2).copied().unwrap_or(0) as usize % 3;
            let warm = Problem {
                reqs: (0..k)
                    .map(|i| Req::Single(ex.get(3 + i).copied().unwrap_or(0) as usize * c.u.vsets.len() >> 16))
                    .collect(),
                constraints: vec![],
                soft: vec![],
            };
            if warm.reqs != c.problem.reqs {
                let w = session.solve(&warm, Cancel::Never, false, false);
                rep.evaluations += 1;
                if let Some(fl) = abnormal(&w.outcome, Cancel::Never) {
                    rep.failure = Some(Failure {
                        detail: format!("warm-up problem {:?} on the same solver: {}", warm.reqs, fl.detail),
                        ..fl
                    });
                    return;
                }
                rep.labels.push("reused-solver");
            }
        }
        let res = session.solve(&c.problem, cfg.cancel, cfg.labels, cfg.render);
        rep.labels.push(res.outcome.kind());
        label_search(&res.labels, &mut rep.labels);
        if let Some(fl) = abnormal(&res.outcome, Cancel::Never) {
            rep.failure = Some(fl);
            return;
        }
        match &res.outcome {
            Outcome::Sat(sol) => {
                let Ok(refs) = solution_refs(&c.ix, sol) else { return };
                let missing: Vec<SRef> = f.iter().copied().filter(|x| !refs.contains(x)).collect();
                // some transitive requirement not met by its first choice?
                let downgraded = refs.iter().any(|&s| match &c.u.cand(s).deps {
                    Deps::Known { reqs, .. } => reqs
                        .iter()
                        .any(|r| c.u.req_ranked(r).first().map(|x| !refs.contains(x)).unwrap_or(false)),
                    _ => false,
                });
                if downgraded {
                    rep.labels.push("transitive-downgrade");
                }
                rep.nontrivial = res.labels.learnt >= 1 && downgraded;
                if !missing.is_empty() {
                    rep.failure = Some(Failure {
                        signature: "C08:direct-requirement-downgraded".into(),
                        detail: format!(
                            "a valid solution containing {:?} exists, but the returned solution {:?} lacks {:?}",
                            f.iter().map(|&s| c.u.display_solvable(s)).collect::<Vec<_>>(),
                            refs.iter().map(|&s| c.u.display_solvable(s)).collect::<Vec<_>>(),
                            missing.iter().map(|&s| c.u.display_solvable(s)).collect::<Vec<_>>()
                        ),
                    });
                }
            }
            _ => {
                rep.failure = Some(Failure {
                    signature: "C02:unsolvable-but-solution-exists".into(),
                    detail: "reference finds a solution containing all first choices; resolvo reports Unsolvable".into(),
                });
            }
        }
    }
}

struct_property!(C08, "C08", "tape -> conflict-heavy universe whose root requirements are all single version sets (+ hints, sync/async, 3 activity parameter pairs; in half of the cases the solver has first been used for a different generated problem over the same universe); F = first-ranked candidate of every root requirement; when the reference resolver finds a valid solution containing all of F (precondition, else skipped and counted) the returned solution must contain F. Non-trivial: precondition true, >=1 learnt clause and some transitive requirement not met by its first choice. Distinct = distinct hash of case.");

// =============================================================================== C09

pub struct C09 {
    pub params: Params,
    pub stage: &'static str,
    /// conflict-free construction (exactness clause) instead of the general distribution
    pub conflict_free: bool,
}

/// Causality / at-most-once invariant over a call log. `completed` carries state across
/// the steps of one solver's life.
pub struct FetchModel {
    known_reqs: Vec<Req>,
    known_names: HashSet<usize>,
    pub deps_started: HashMap<u32, usize>,
    pub cands_started: HashMap<u32, usize>,
    pub deps_completed: HashSet<u32>,
    pub cands_completed: HashSet<u32>,
    /// requests of the current solve that have started and not completed (gated providers)
    deps_outstanding: HashSet<u32>,
    cands_outstanding: HashSet<u32>,
}

impl FetchModel {
    pub fn new() -> Self {
        FetchModel {
            deps_outstanding: HashSet::new(),
            cands_outstanding: HashSet::new(),
            known_reqs: vec![],
            known_names: HashSet::new(),
            deps_started: HashMap::new(),
            cands_started: HashMap::new(),
            deps_completed: HashSet::new(),
            cands_completed: HashSet::new(),
        }
    }

    fn learn(&mut self, u: &Universe, reqs: &[Req], constrains: &[usize]) {
        for r in reqs {
            for vs in u.req_vsets(r) {
                self.known_names.insert(u.vsets[vs].pkg);
            }
            if !self.known_reqs.contains(r) {
                self.known_reqs.push(r.clone());
            }
        }
        for &vs in constrains {
            self.known_names.insert(u.vsets[vs].pkg);
        }
    }

    /// Feed one step's log. `gated`: completion is signalled by `Call::Completed`
    /// (async provider); otherwise a call completes immediately.
    pub fn step(&mut self, c: &Case, problem: &Problem, log: &[Call], gated: bool, check_causal: bool) -> Result<(), Failure> {
        self.learn(&c.u, &problem.reqs, &problem.constraints);
        // whatever an earlier solve left outstanding was dropped when it returned
        self.deps_outstanding.clear();
        self.cands_outstanding.clear();
        for call in log {
            match call {
                Call::GetDependencies(sid) => {
                    let Some(&s) = c.ix.solvable.get(sid) else {
                        return Err(Failure {
                            signature: "C09:unknown-solvable".into(),
                            detail: format!("get_dependencies({sid})"),
                        });
                    };
                    if self.deps_completed.contains(sid) {
                        return Err(Failure {
                            signature: "C09:dependencies-requested-twice".into(),
                            detail: format!("get_dependencies({}) requested again after it completed", c.u.display_solvable(s)),
                        });
                    }
                    *self.deps_started.entry(*sid).or_default() += 1;
                    if gated && !self.deps_outstanding.insert(*sid) {
                        return Err(Failure {
                            signature: "C09:dependencies-requested-twice".into(),
                            detail: format!("get_dependencies({}) requested again while the first request is still outstanding", c.u.display_solvable(s)),
                        });
                    }
                    if check_causal {
                        let causal = problem.soft.contains(&s)
                            || self.known_reqs.iter().any(|r| c.u.req_cands(r).contains(&s));
                        if !causal {
                            return Err(Failure {
                                signature: "C09:acausal-get-dependencies".into(),
                                detail: format!(
                                    "get_dependencies({}) although it is not a candidate of any requirement obtained so far",
                                    c.u.display_solvable(s)
                                ),
                            });
                        }
                    }
                    if !gated {
                        self.deps_completed.insert(*sid);
                        if let Deps::Known { reqs, constrains } = &c.u.cand(s).deps {
                            let (r, k) = (reqs.clone(), constrains.clone());
                            self.learn(&c.u, &r, &k);
                        }
                    }
                }
                Call::GetCandidates(nid) => {
                    let Some(&pi) = c.ix.name.get(nid) else {
                        return Err(Failure {
                            signature: "C09:unknown-name".into(),
                            detail: format!("get_candidates({nid})"),
                        });
                    };
                    if self.cands_completed.contains(nid) {
                        return Err(Failure {
                            signature: "C09:candidates-requested-twice".into(),
                            detail: format!("get_candidates({}) requested again after it completed", c.u.packages[pi].name),
                        });
                    }
                    *self.cands_started.entry(*nid).or_default() += 1;
                    if gated && !self.cands_outstanding.insert(*nid) {
                        return Err(Failure {
                            signature: "C09:candidates-requested-twice".into(),
                            detail: format!("get_candidates({}) requested again while the first request is still outstanding", c.u.packages[pi].name),
                        });
                    }
                    if check_causal && !self.known_names.contains(&pi) {
                        return Err(Failure {
                            signature: "C09:acausal-get-candidates".into(),
                            detail: format!(
                                "get_candidates({}) although no dependency obtained so far mentions it",
                                c.u.packages[pi].name
                            ),
                        });
                    }
                    if !gated {
                        self.cands_completed.insert(*nid);
                    }
                }
                Call::Completed(ReqKind::Dependencies, sid) => {
                    self.deps_outstanding.remove(sid);
                    self.deps_completed.insert(*sid);
                    if let Some(&s) = c.ix.solvable.get(sid) {
                        if let Deps::Known { reqs, constrains } = &c.u.cand(s).deps {
                            let (r, k) = (reqs.clone(), constrains.clone());
                            self.learn(&c.u, &r, &k);
                        }
                    }
                }
                Call::Dropped(ReqKind::Dependencies, sid) => {
                    self.deps_outstanding.remove(sid);
                }
                Call::Dropped(ReqKind::Candidates, nid) => {
                    self.cands_outstanding.remove(nid);
                }
                Call::Completed(ReqKind::Candidates, nid) => {
                    self.cands_outstanding.remove(nid);
                    self.cands_completed.insert(*nid);
                }
                _ => {}
            }
        }
        Ok(())
    }
}

impl Default for FetchModel {
    fn default() -> Self {
        Self::new()
    }
}

impl C09 {
    fn decode(&self, tape: &[u16]) -> StructCase {
        if self.conflict_free {
            decode_conflict_free(tape, &self.params, false, 4)
        } else {
            // universe + two problems (successive solves on one solver)
            let mut t = Tape::new(tape);
            let params = self.params.clone().no_hints();
            let mut u = gen_universe(&mut t, &params);
            let p1 = gen_problem(&mut t, &mut u, &params);
            let p2 = gen_problem(&mut t, &mut u, &params);
            gen_ids(&mut t, &mut u, &params);
            let rt = gen_runtime(&mut t, 4);
            // an optional first solve of the first problem that is cancelled at a generated poll
            let k = t.next();
            StructCase {
                u,
                problem: p1,
                rt,
                extra: vec![k],
                more: vec![p2],
            }
        }
    }

    fn check(&self, sc: &StructCase, c: &Case, rep: &mut CaseReport) {
        if c.u.packages.iter().any(|p| !matches!(p.hint, Hint::None)) {
            rep.skipped = Some("has-hints");
            return;
        }
        let gated = matches!(sc.rt, Runtime::Async { .. });
        let mut session = Session::new(c.u.clone(), &sc.rt, None);
        // general stage, a quarter of the asynchronous cases: the provider's sort_candidates
        // looks at the dependencies of the candidates it ranks (and at the candidates of the
        // packages those mention) through the SolverCache - requests for matching candidates of
        // requirements already obtained, made concurrently with the solver's own
        let reentrant = gated && !self.conflict_free && hash_of(&(&c.problem, c.u.vsets.len())) % 4 == 0;
        if reentrant {
            // half of them: the first nested request the sort would have to wait for is given up
            // after a while (callers that wait for it meanwhile must share ONE new request)
            let abandon = hash_of(&(&c.problem, c.u.vsets.len())) % 8 == 4;
            session.provider().probe.set(if abandon { crate::provider::SortProbe::DepsAbandon } else { crate::provider::SortProbe::Deps });
            rep.labels.push(if abandon { "re-entrant-sort-abandoning" } else { "re-entrant-sort" });
        }
        let mut model = FetchModel::new();
        let mut problems = vec![c.problem.clone()];
        problems.extend(sc.more.iter().cloned());
        let g = if self.conflict_free {
            match first_choice_closure(&c.u, &c.problem) {
                Some(g) => Some(g),
                None => {
                    rep.skipped = Some("precondition-false");
                    return;
                }
            }
        } else {
            None
        };
        // a solve that the provider cancels part-way is an ordinary part of a solver's history:
        // what was obtained before the cancellation stays obtained
        let mut plan: Vec<(&Problem, Cancel)> = vec![];
        if !self.conflict_free && !reentrant {
            if let Some(&k) = sc.extra.first() {
                if k % 3 != 0 {
                    plan.push((&problems[0], Cancel::Transient((k / 3 % 48) as u64)));
                }
            }
        }
        // conflict-free stage: in a third of the cases the solver has been used before, for a
        // different generated problem that may be cancelled part-way
        let warm;
        let mut warmed = false;
        if self.conflict_free && !c.u.vsets.is_empty() {
            let ex = &sc.extra;
            if ex.first().map_or(false, |v| v % 3 == 1) {
                let k = 1 + ex.get(1).copied().unwrap_or(0) as usize % 3;
                warm = Problem {
                    reqs: (0..k)
                        .map(|i| Req::Single(ex.get(2 + i).copied().unwrap_or(0) as usize * c.u.vsets.len() >> 16))
                        .collect(),
                    constraints: vec![],
                    soft: vec![],
                };
                let cancel = match ex.get(6) {
                    Some(&v) if v & 1 == 1 => Cancel::Transient((v as u64 >> 1) % 24),
                    _ => Cancel::Never,
                };
                plan.push((&warm, cancel));
                warmed = true;
            }
        }
        plan.extend(problems.iter().map(|p| (p, Cancel::Never)));
        let mut last_deps: BTreeSet<u32> = BTreeSet::new();
        for (i, &(p, cancel)) in plan.iter().enumerate() {
            let res = session.solve(p, cancel, false, false);
            rep.evaluations += 1;
            if i == 0 {
                rep.labels.push(res.outcome.kind());
            }
            if matches!(res.outcome, Outcome::Cancelled(_)) {
                rep.labels.push("cancelled-then-resolved");
            }
            if let Some(f) = abnormal(&res.outcome, cancel) {
                rep.failure = Some(f);
                return;
            }
            last_deps = res
                .log
                .iter()
                .filter_map(|c| match c {
                    Call::GetDependencies(s) => Some(*s),
                    _ => None,
                })
                .collect();
            if let Err(f) = model.step(c, p, &res.log, gated, true) {
                rep.failure = Some(Failure {
                    detail: format!("solve #{i}: {}", f.detail),
                    ..f
                });
                return;
            }
        }
        if warmed {
            rep.labels.push("conflict-free-on-used-solver");
        }
        if problems.len() > 1 {
            rep.labels.push("second-solve");
        }
        // unfetched lower-ranked candidates with dependencies
        let unfetched = c
            .u
            .packages
            .iter()
            .flat_map(|p| p.cands.iter())
            .filter(|cd| {
                !model.deps_started.contains_key(&cd.sid)
                    && matches!(&cd.deps, Deps::Known { reqs, .. } if !reqs.is_empty())
            })
            .count();
        rep.nontrivial = unfetched >= 3 || problems.len() > 1;
        if let Some(g) = g {
            let want_deps: BTreeSet<u32> = g.iter().map(|&s| c.u.cand(s).sid).collect();
            let got_deps: BTreeSet<u32> = model.deps_started.keys().copied().collect();
            let mut want_names: BTreeSet<u32> = BTreeSet::new();
            let mut add = |reqs: &[Req], cons: &[usize]| {
                for r in reqs {
                    for vs in c.u.req_vsets(r) {
                        want_names.insert(c.u.packages[c.u.vsets[vs].pkg].name_id);
                    }
                }
                for &vs in cons {
                    want_names.insert(c.u.packages[c.u.vsets[vs].pkg].name_id);
                }
            };
            add(&c.problem.reqs, &c.problem.constraints);
            for &s in &g {
                if let Deps::Known { reqs, constrains } = &c.u.cand(s).deps {
                    add(reqs, constrains);
                }
            }
            let got_names: BTreeSet<u32> = model.cands_started.keys().copied().collect();
            if warmed {
                // whatever the solver was used for before, the conflict-free solve itself asks
                // for the dependencies of solution members only, and all of them are known
                // at the end
                if !last_deps.is_subset(&want_deps) || !want_deps.is_subset(&got_deps) {
                    rep.failure = Some(Failure {
                        signature: "C09:not-exactly-solution-dependencies".into(),
                        detail: format!(
                            "on a solver used before: the conflict-free solve requested dependencies of solvable ids {last_deps:?} (all requests of this solver: {got_deps:?}), the solution is {want_deps:?}"
                        ),
                    });
                }
                return;
            }
            if want_deps != got_deps {
                rep.failure = Some(Failure {
                    signature: "C09:not-exactly-solution-dependencies".into(),
                    detail: format!("dependencies fetched for solvable ids {got_deps:?}, expected exactly the solution {want_deps:?}"),
                });
                return;
            }
            if want_names != got_names {
                rep.failure = Some(Failure {
                    signature: "C09:not-exactly-mentioned-names".into(),
                    detail: format!("candidates fetched for name ids {got_names:?}, expected exactly {want_names:?}"),
                });
            }
        }
    }
}

struct_property!(C09, "C09", "tape -> no-hint universe; (general stage) two successive problems solved on ONE solver, sync or async, in two thirds of the cases preceded by a solve that the provider cancels at a generated poll; in a quarter of the asynchronous cases the provider's sort_candidates itself looks up dependencies and candidates through the SolverCache (no request may start while one for the same key is outstanding); the provider call log is checked as a history: every get_dependencies(s) is for a soft requirement or a matching candidate of a requirement already obtained (root or previously returned dependencies), every get_candidates(n) is for a name those dependencies mention, and no key is requested again after it completed (across both solves); (conflict-free stage) on universes that are conflict-free by construction dependencies are requested for exactly the solution and candidates for exactly the mentioned names; in a third of these cases the solver was used before for a different generated problem (possibly cancelled part-way), and then the conflict-free solve itself may request dependencies of solution members only. Non-trivial: >=3 candidates with dependencies were never fetched, or a second solve ran on the same solver. Distinct = distinct hash of case.");

// =============================================================================== C14

pub struct C14 {
    pub params: Params,
    pub stage: &'static str,
    pub conflict_free: bool,
}

impl C14 {
    fn decode(&self, tape: &[u16]) -> StructCase {
        if !self.conflict_free {
            return decode_case(tape, &self.params, 3);
        }
        let mut sc = decode_conflict_free(tape, &self.params, true, 3);
        // soft list: targets-of-unreached packages (compatible extras), other versions,
        // excluded / Unknown / noisy candidates, duplicates
        let mut t = Tape::new(&sc.extra);
        let all: Vec<SRef> = sc
            .u
            .packages
            .iter()
            .enumerate()
            .flat_map(|(pi, pk)| {
                (0..pk.cands.len()).map(move |idx| SRef {
                    pkg: pi,
                    idx,
                    listed: true,
                })
            })
            .collect();
        let n = 1 + t.below(5);
        for _ in 0..n {
            if all.is_empty() {
                break;
            }
            let s = all[t.below(all.len())];
            sc.problem.soft.push(s);
            if t.chance(1, 6) {
                sc.problem.soft.push(s);
            }
        }
        sc
    }

    fn check(&self, sc: &StructCase, c: &Case, rep: &mut CaseReport) {
        let expected = match reference_verdict(c) {
            Exists::Budget => {
                rep.skipped = Some("reference-budget");
                return;
            }
            Exists::Yes(_) => true,
            Exists::No => false,
        };
        rep.evaluations = 1;
        let cfg = RunCfg {
            runtime: sc.rt.clone(),
            labels: true,
            render: false,
            ..Default::default()
        };
        let res = run_once(&c.u, &c.problem, &cfg);
        rep.labels.push(res.outcome.kind());
        label_search(&res.labels, &mut rep.labels);
        if let Some(f) = abnormal(&res.outcome, Cancel::Never) {
            rep.failure = Some(f);
            return;
        }
        let got = matches!(res.outcome, Outcome::Sat(_));
        if got != expected {
            rep.failure = Some(Failure {
                signature: if expected {
                    "C14:soft-requirements-caused-unsolvable".into()
                } else {
                    "C14:soft-requirements-rescued-unsat".into()
                },
                detail: format!(
                    "hard problem is {} per reference, solve with soft list {:?} returned {}",
                    if expected { "solvable" } else { "unsolvable" },
                    c.problem.soft.iter().map(|&s| c.u.display_solvable(s)).collect::<Vec<_>>(),
                    res.outcome.kind()
                ),
            });
            return;
        }
        let Outcome::Sat(sol) = &res.outcome else { return };
        let Ok(refs) = solution_refs(&c.ix, sol) else {
            rep.failure = Some(Failure {
                signature: "C01:unknown-id".into(),
                detail: "unknown id".into(),
            });
            return;
        };
        if let Err(inv) = valid(&c.u, &c.problem, &refs, &c.problem.soft) {
            rep.failure = Some(Failure {
                signature: format!("C01:{}", inv.clause),
                detail: format!("{}: {}", inv.clause, inv.detail),
            });
            return;
        }
        let accepted = c.problem.soft.iter().filter(|s| refs.contains(s)).count();
        let rejected = c.problem.soft.iter().filter(|s| !refs.contains(s)).count();
        if accepted > 0 {
            rep.labels.push("soft-accepted");
        }
        if rejected > 0 {
            rep.labels.push("soft-rejected");
        }
        rep.nontrivial = (accepted > 0 && rejected > 0) || (res.labels.learnt >= 1 && !c.problem.soft.is_empty());
        if !self.conflict_free {
            return;
        }
        // inclusion rule on a conflict-free hard part
        let hard = Problem {
            soft: vec![],
            ..c.problem.clone()
        };
        let Some(g) = first_choice_closure(&c.u, &hard) else {
            rep.skipped = Some("precondition-false");
            return;
        };
        let mut a: BTreeSet<SRef> = g;
        let mut seeds: Vec<SRef> = vec![];
        for &s in &c.problem.soft {
            if a.contains(&s) {
                if !refs.contains(&s) {
                    rep.failure = Some(Failure {
                        signature: "C14:compatible-soft-requirement-dropped".into(),
                        detail: format!("{} is part of the accepted selection but missing", c.u.display_solvable(s)),
                    });
                    return;
                }
                continue;
            }
            let extended = if intrinsically_ok(&c.u, s).is_ok() {
                let mut sd = seeds.clone();
                sd.push(s);
                first_choice_closure_seeded(&c.u, &hard, &sd).filter(|all| a.is_subset(all))
            } else {
                None
            };
            match extended {
                Some(all) => {
                    rep.labels.push("inclusion-rule-applied");
                    a = all;
                    seeds.push(s);
                    if !refs.contains(&s) {
                        rep.failure = Some(Failure {
                            signature: "C14:compatible-soft-requirement-dropped".into(),
                            detail: format!(
                                "{} and its first-choice closure are compatible with the conflict-free selection, but it was not included; solution {:?}",
                                c.u.display_solvable(s),
                                refs.iter().map(|&x| c.u.display_solvable(x)).collect::<Vec<_>>()
                            ),
                        });
                        return;
                    }
                }
                None => {
                    if refs.contains(&s) {
                        // accepted through another route: the model of the accepted set is no longer exact
                        break;
                    }
                }
            }
        }
    }
}

struct_property!(C14, "C14", "tape -> (general stage) conflict-heavy universe + hard problem + soft list drawn from all listed/unlisted solvables (compatible, incompatible, duplicates, other versions of installed packages, excluded, locked-out, Unknown), order as generated: the verdict must equal the reference verdict of the HARD problem and Ok(S) must pass the C01 predicate with the soft exemption; (conflict-free stage) hard part conflict-free by construction: walking the soft list in order, a soft solvable that is intrinsically installable and whose first-choice closure is consistent with the selection accepted so far must be in S. Non-trivial: >=1 accepted and >=1 rejected soft solvable, or a learnt clause with a non-empty soft list. Distinct = distinct hash of case.");

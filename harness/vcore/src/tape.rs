//! A choice tape: every generated case is a pure function of a `&[u16]`.
//!
//! proptest generates (and shrinks) the tape as a `Vec<u16>`; libFuzzer targets
//! reinterpret their byte input as a tape.  All index choices are mapped
//! *monotonically* (`v * n >> 16`) so that shrinking a tape value towards 0
//! moves the decoded choice towards the first / simplest alternative, and an
//! exhausted tape yields 0 forever (the smallest case).

pub struct Tape<'a> {
    data: &'a [u16],
    pos: usize,
    /// when non-zero: reads past the end of the tape continue with a xorshift stream seeded
    /// from a tape value (still a pure function of the tape; a zero seed - the shrink target -
    /// gives the plain behaviour). Used by the huge-package stages, whose thousands of
    /// per-candidate choices no tape of practical length can hold.
    tail: u64,
}

impl<'a> Tape<'a> {
    pub fn new(data: &'a [u16]) -> Self {
        Self { data, pos: 0, tail: 0 }
    }

    #[inline]
    pub fn next(&mut self) -> u16 {
        let v = match self.data.get(self.pos) {
            Some(v) => *v,
            None if self.tail != 0 => {
                let mut x = self.tail;
                x ^= x << 13;
                x ^= x >> 7;
                x ^= x << 17;
                self.tail = x;
                (x.wrapping_mul(0x2545_F491_4F6C_DD1D) >> 48) as u16
            }
            None => 0,
        };
        self.pos += 1;
        v
    }

    /// Continue past the end of the tape with a pseudo-random stream derived from `seed`
    /// (0 = off).
    pub fn enable_tail(&mut self, seed: u16) {
        self.tail = if seed == 0 { 0 } else { (seed as u64).wrapping_mul(0x9E37_79B9_7F4A_7C15) | 1 };
    }

    /// the not yet consumed part of the tape
    pub fn rest(&self) -> &'a [u16] {
        &self.data[self.pos.min(self.data.len())..]
    }

    pub fn consumed(&self) -> usize {
        self.pos
    }

    pub fn exhausted(&self) -> bool {
        self.pos >= self.data.len()
    }

    /// Uniform-ish choice in `0..n` (`n == 0` gives 0). Monotone in the tape value.
    #[inline]
    pub fn below(&mut self, n: usize) -> usize {
        let v = self.next() as usize;
        if n == 0 {
            return 0;
        }
        (v * n) >> 16
    }

    /// Inclusive range.
    #[inline]
    pub fn range(&mut self, lo: usize, hi: usize) -> usize {
        debug_assert!(lo <= hi);
        lo + self.below(hi - lo + 1)
    }

    /// True with probability `num/den`; a zero tape value always gives `false`.
    #[inline]
    pub fn chance(&mut self, num: u32, den: u32) -> bool {
        let v = self.next() as u32;
        if num == 0 {
            return false;
        }
        if num >= den {
            // still consume, but always true
            return true;
        }
        let threshold = 65536 - (65536u64 * num as u64 / den as u64) as u32;
        v >= threshold.max(1)
    }

    /// Weighted choice: returns the index of the chosen weight. Index 0 is the
    /// shrink target.
    pub fn weighted(&mut self, weights: &[u32]) -> usize {
        let total: u32 = weights.iter().sum();
        if total == 0 {
            self.next();
            return 0;
        }
        let mut x = ((self.next() as u64 * total as u64) >> 16) as u32;
        for (i, &w) in weights.iter().enumerate() {
            if x < w {
                return i;
            }
            x -= w;
        }
        weights.len() - 1
    }

    /// Tape-driven Fisher-Yates; an all-zero tape yields the identity.
    pub fn permutation(&mut self, n: usize) -> Vec<usize> {
        let mut p: Vec<usize> = (0..n).collect();
        for i in 0..n.saturating_sub(1) {
            let j = i + self.below(n - i);
            p.swap(i, j);
        }
        p
    }
}

/// Reinterpret bytes (fuzzer input) as a tape.
pub fn bytes_to_tape(bytes: &[u8]) -> Vec<u16> {
    bytes
        .chunks(2)
        .map(|c| {
            if c.len() == 2 {
                u16::from_le_bytes([c[0], c[1]])
            } else {
                c[0] as u16
            }
        })
        .collect()
}

pub fn tape_to_bytes(tape: &[u16]) -> Vec<u8> {
    tape.iter().flat_map(|v| v.to_le_bytes()).collect()
}

//! Harness-owned scheduler: every provider future is a `Gate` that stays pending
//! until the scheduler completes it, and `SchedRuntime::block_on` decides - from a
//! generated schedule - which outstanding request completes next. Quiescent with
//! nothing outstanding is a deadlock, detected structurally (no clock).

use resolvo::runtime::AsyncRuntime;
use std::cell::{Cell, RefCell};
use std::future::Future;
use std::pin::Pin;
use std::rc::Rc;
use std::sync::atomic::{AtomicBool, Ordering};
use std::sync::Arc;
use std::task::{Context, Poll, Wake, Waker};

#[derive(Clone, Copy, Debug, PartialEq, Eq, Hash, serde::Serialize, serde::Deserialize)]
pub enum ReqKind {
    Candidates,
    Dependencies,
    Filter,
    Sort,
}

#[derive(Clone, Copy, Debug, PartialEq, Eq)]
enum GateState {
    Waiting,
    Released,
}

struct Entry {
    id: u64,
    kind: ReqKind,
    key: u32,
    state: GateState,
    waker: Option<Waker>,
}

/// How the scheduler picks the next request to complete at a quiescent point.
#[derive(Clone, Debug, serde::Serialize, serde::Deserialize, PartialEq, Eq)]
pub enum Policy {
    /// oldest outstanding request first
    Fifo,
    /// newest first
    Lifo,
    /// release everything outstanding at once
    All,
    /// generated choices: each value picks `v * n >> 16` among the n outstanding requests;
    /// the high bit of the *next* value decides whether to release a second one as well
    Choices(Vec<u16>),
    /// explicit indices (used by exhaustive enumeration); falls back to 0 when exhausted
    Script(Vec<usize>),
}

/// Snapshot handed to the quiescence observer.
#[derive(Clone, Debug)]
pub struct Quiescent {
    /// outstanding requests (kind, key) in issue order
    pub outstanding: Vec<(ReqKind, u32)>,
    pub index: usize,
}

pub struct Sched {
    entries: RefCell<Vec<Entry>>,
    next_id: Cell<u64>,
    policy: RefCell<Policy>,
    cursor: Cell<usize>,
    /// which calls are immediately ready instead of gated: bit i of the sequence
    immediate: RefCell<Vec<u16>>,
    imm_cursor: Cell<usize>,
    pub quiescent_points: Cell<usize>,
    /// per quiescent point: number of outstanding requests
    pub trace: RefCell<Vec<usize>>,
    /// branching record for exhaustive enumeration: (n_outstanding) at each choice
    pub branching: RefCell<Vec<usize>>,
    pub observer: RefCell<Option<Box<dyn FnMut(&Quiescent) -> Result<(), String>>>>,
    pub observer_error: RefCell<Option<String>>,
    /// number of releases that were not in issue order
    pub out_of_order: Cell<usize>,
    /// gates may only be kinds in this list (others are immediately ready)
    pub gated_kinds: RefCell<Vec<ReqKind>>,
    max_steps: Cell<usize>,
    /// the provider completes nothing any more (it asked the solver to cancel and tore its
    /// connections down): outstanding requests stay outstanding for ever
    pub frozen: Cell<bool>,
}

pub const DEADLOCK_MSG: &str = "HARNESS-DEADLOCK: root future pending, not woken, nothing outstanding";
pub const STEPS_MSG: &str = "HARNESS-STEP-BUDGET: scheduler step budget exceeded";
pub const OBSERVER_MSG: &str = "HARNESS-OBSERVER: quiescence invariant violated";

impl Sched {
    pub fn new(policy: Policy, immediate: Vec<u16>) -> Rc<Self> {
        Rc::new(Sched {
            entries: RefCell::new(Vec::new()),
            next_id: Cell::new(0),
            policy: RefCell::new(policy),
            cursor: Cell::new(0),
            immediate: RefCell::new(immediate),
            imm_cursor: Cell::new(0),
            quiescent_points: Cell::new(0),
            trace: RefCell::new(Vec::new()),
            branching: RefCell::new(Vec::new()),
            observer: RefCell::new(None),
            observer_error: RefCell::new(None),
            out_of_order: Cell::new(0),
            gated_kinds: RefCell::new(vec![
                ReqKind::Candidates,
                ReqKind::Dependencies,
                ReqKind::Filter,
                ReqKind::Sort,
            ]),
            max_steps: Cell::new(200_000),
            frozen: Cell::new(false),
        })
    }

    pub fn outstanding(&self) -> Vec<(ReqKind, u32)> {
        self.entries
            .borrow()
            .iter()
            .filter(|e| e.state == GateState::Waiting)
            .map(|e| (e.kind, e.key))
            .collect()
    }

    fn is_immediate(&self, kind: ReqKind) -> bool {
        if !self.gated_kinds.borrow().contains(&kind) {
            return true;
        }
        let imm = self.immediate.borrow();
        if imm.is_empty() {
            return false;
        }
        let c = self.imm_cursor.get();
        self.imm_cursor.set(c + 1);
        // each u16 supplies 16 decisions; exhausted => gated
        let word = imm.get(c / 16).copied().unwrap_or(0);
        (word >> (c % 16)) & 1 == 1
    }

    fn register(&self, kind: ReqKind, key: u32) -> u64 {
        let id = self.next_id.get();
        self.next_id.set(id + 1);
        self.entries.borrow_mut().push(Entry {
            id,
            kind,
            key,
            state: GateState::Waiting,
            waker: None,
        });
        id
    }

    fn release_at(&self, pos_among_waiting: usize) {
        let mut entries = self.entries.borrow_mut();
        let mut n = 0;
        let mut first_waiting = true;
        for e in entries.iter_mut() {
            if e.state == GateState::Waiting {
                if n == pos_among_waiting {
                    if !first_waiting {
                        self.out_of_order.set(self.out_of_order.get() + 1);
                    }
                    e.state = GateState::Released;
                    if let Some(w) = e.waker.take() {
                        w.wake();
                    }
                    return;
                }
                first_waiting = false;
                n += 1;
            }
        }
    }

    /// Called at a quiescent point; returns false if nothing is outstanding (deadlock).
    fn step(&self) -> bool {
        let n = self.outstanding().len();
        if n == 0 || self.frozen.get() {
            return false;
        }
        self.branching.borrow_mut().push(n);
        let policy = self.policy.borrow().clone();
        match policy {
            Policy::Fifo => self.release_at(0),
            Policy::Lifo => self.release_at(n - 1),
            Policy::All => {
                for _ in 0..n {
                    self.release_at(0);
                }
            }
            Policy::Choices(ch) => {
                let c = self.cursor.get();
                let v = ch.get(c).copied().unwrap_or(0) as usize;
                self.cursor.set(c + 1);
                let pick = (v * n) >> 16;
                self.release_at(pick);
                if n > 1 {
                    let v2 = ch.get(c + 1).copied().unwrap_or(0);
                    // one in four quiescent points releases a second request too
                    if v2 >= 0xC000 {
                        self.cursor.set(c + 2);
                        let pick2 = ((v2 as usize & 0x3fff) * (n - 1)) >> 14;
                        self.release_at(pick2);
                    }
                }
            }
            Policy::Script(s) => {
                let c = self.cursor.get();
                let pick = s.get(c).copied().unwrap_or(0).min(n - 1);
                self.cursor.set(c + 1);
                self.release_at(pick);
            }
        }
        true
    }
}

/// A future that completes when the scheduler releases it.
pub struct Gate {
    sched: Rc<Sched>,
    kind: ReqKind,
    key: u32,
    id: Option<u64>,
    done: bool,
}

impl Gate {
    pub fn new(sched: Rc<Sched>, kind: ReqKind, key: u32) -> Self {
        Gate {
            sched,
            kind,
            key,
            id: None,
            done: false,
        }
    }
}

impl Future for Gate {
    type Output = ();
    fn poll(mut self: Pin<&mut Self>, cx: &mut Context<'_>) -> Poll<()> {
        if self.done {
            return Poll::Ready(());
        }
        match self.id {
            None => {
                if self.sched.is_immediate(self.kind) {
                    self.done = true;
                    return Poll::Ready(());
                }
                let id = self.sched.register(self.kind, self.key);
                self.id = Some(id);
                let mut entries = self.sched.entries.borrow_mut();
                let e = entries.iter_mut().find(|e| e.id == id).unwrap();
                e.waker = Some(cx.waker().clone());
                Poll::Pending
            }
            Some(id) => {
                let mut entries = self.sched.entries.borrow_mut();
                let pos = entries.iter().position(|e| e.id == id).unwrap();
                if entries[pos].state == GateState::Released {
                    entries.remove(pos);
                    drop(entries);
                    self.done = true;
                    self.id = None;
                    Poll::Ready(())
                } else {
                    entries[pos].waker = Some(cx.waker().clone());
                    Poll::Pending
                }
            }
        }
    }
}

impl Drop for Gate {
    fn drop(&mut self) {
        if let Some(id) = self.id {
            let mut entries = self.sched.entries.borrow_mut();
            if let Some(pos) = entries.iter().position(|e| e.id == id) {
                entries.remove(pos);
            }
        }
    }
}

struct FlagWaker(AtomicBool);
impl Wake for FlagWaker {
    fn wake(self: Arc<Self>) {
        self.0.store(true, Ordering::SeqCst);
    }
    fn wake_by_ref(self: &Arc<Self>) {
        self.0.store(true, Ordering::SeqCst);
    }
}

#[derive(Clone)]
pub struct SchedRuntime {
    pub sched: Rc<Sched>,
}

impl AsyncRuntime for SchedRuntime {
    fn block_on<F: Future>(&self, f: F) -> F::Output {
        let mut f = std::pin::pin!(f);
        let flag = Arc::new(FlagWaker(AtomicBool::new(false)));
        let waker = Waker::from(flag.clone());
        let mut cx = Context::from_waker(&waker);
        let mut steps = 0usize;
        loop {
            flag.0.store(false, Ordering::SeqCst);
            if let Poll::Ready(v) = f.as_mut().poll(&mut cx) {
                return v;
            }
            steps += 1;
            if steps > self.sched.max_steps.get() {
                panic!("{}", STEPS_MSG);
            }
            if flag.0.load(Ordering::SeqCst) {
                // self-woken (e.g. FuturesUnordered's cooperative yield): not quiescent
                continue;
            }
            // quiescent point
            let q = Quiescent {
                outstanding: self.sched.outstanding(),
                index: self.sched.quiescent_points.get(),
            };
            self.sched.quiescent_points.set(q.index + 1);
            self.sched.trace.borrow_mut().push(q.outstanding.len());
            let mut failed = None;
            if let Some(obs) = self.sched.observer.borrow_mut().as_mut() {
                if let Err(e) = obs(&q) {
                    failed = Some(e);
                }
            }
            if let Some(e) = failed {
                *self.sched.observer_error.borrow_mut() = Some(e);
                panic!("{}", OBSERVER_MSG);
            }
            if !self.sched.step() {
                panic!("{}", DEADLOCK_MSG);
            }
        }
    }
}

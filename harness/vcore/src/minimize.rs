//! Structural minimiser for decoded cases: after proptest / tape shrinking, the decoded
//! universe is reduced further by semantic edits (drop requirements, clear dependencies,
//! remove candidates, strip attributes, collect garbage, densify ids) while the same
//! failure signature persists. The result is what goes into the replay file.

use crate::model::*;
use crate::run::Runtime;
use serde::{Deserialize, Serialize};

#[derive(Clone, Debug, Serialize, Deserialize, PartialEq)]
pub struct StructCase {
    pub u: Universe,
    pub problem: Problem,
    pub rt: Runtime,
    /// remaining tape (drives variants, cancellation indices, ... depending on the property)
    pub extra: Vec<u16>,
    /// further problems on the same universe (solve histories on one solver)
    #[serde(default)]
    pub more: Vec<Problem>,
}

impl StructCase {
    fn all_problems(&mut self) -> Vec<&mut Problem> {
        let mut v = vec![&mut self.problem];
        v.extend(self.more.iter_mut());
        v
    }
}

fn remove_cand(u: &mut Universe, ps: &mut [&mut Problem], pkg: usize, k: usize) {
    let pk = &mut u.packages[pkg];
    pk.cands.remove(k);
    pk.sort_rank.retain(|&i| i != k);
    for i in pk.sort_rank.iter_mut() {
        if *i > k {
            *i -= 1;
        }
    }
    let fix = |o: Option<usize>| match o {
        Some(i) if i == k => None,
        Some(i) if i > k => Some(i - 1),
        x => x,
    };
    pk.favored = fix(pk.favored);
    pk.locked = fix(pk.locked);
    if let Hint::Some(v) = &mut pk.hint {
        v.retain(|&i| i != k);
        for i in v.iter_mut() {
            if *i > k {
                *i -= 1;
            }
        }
    }
    for vs in u.vsets.iter_mut().filter(|v| v.pkg == pkg) {
        vs.matches.retain(|&i| i != k);
        for i in vs.matches.iter_mut() {
            if *i > k {
                *i -= 1;
            }
        }
    }
    for p in ps.iter_mut() {
        p.soft.retain(|s| !(s.pkg == pkg && s.listed && s.idx == k));
        for s in p.soft.iter_mut() {
            if s.pkg == pkg && s.listed && s.idx > k {
                s.idx -= 1;
            }
        }
    }
}

/// Drop unreferenced version sets, unions and trailing empty packages; remap indices.
fn collect_garbage(u: &mut Universe, ps: &mut [&mut Problem]) {
    // unions
    let mut used_union = vec![false; u.unions.len()];
    let mut mark_req = |r: &Req, used_union: &mut Vec<bool>| {
        if let Req::Union(i) = r {
            used_union[*i] = true;
        }
    };
    for p in ps.iter() {
        for r in &p.reqs {
            mark_req(r, &mut used_union);
        }
    }
    for pk in &u.packages {
        for c in pk.cands.iter().chain(pk.unlisted.iter()) {
            if let Deps::Known { reqs, .. } = &c.deps {
                for r in reqs {
                    mark_req(r, &mut used_union);
                }
            }
        }
    }
    let mut union_map = vec![usize::MAX; u.unions.len()];
    let mut new_unions = vec![];
    for (i, un) in u.unions.iter().enumerate() {
        if used_union[i] {
            union_map[i] = new_unions.len();
            new_unions.push(un.clone());
        }
    }
    u.unions = new_unions;
    // vsets
    let mut used_vs = vec![false; u.vsets.len()];
    for un in &u.unions {
        for &m in &un.members {
            used_vs[m] = true;
        }
    }
    let mark = |r: &Req, used_vs: &mut Vec<bool>| {
        if let Req::Single(i) = r {
            used_vs[*i] = true;
        }
    };
    for p in ps.iter() {
        for r in &p.reqs {
            mark(r, &mut used_vs);
        }
        for &c in &p.constraints {
            used_vs[c] = true;
        }
    }
    for pk in &u.packages {
        for c in pk.cands.iter().chain(pk.unlisted.iter()) {
            if let Deps::Known { reqs, constrains } = &c.deps {
                for r in reqs {
                    mark(r, &mut used_vs);
                }
                for &v in constrains {
                    used_vs[v] = true;
                }
            }
        }
    }
    let mut vs_map = vec![usize::MAX; u.vsets.len()];
    let mut new_vs = vec![];
    for (i, v) in u.vsets.iter().enumerate() {
        if used_vs[i] {
            vs_map[i] = new_vs.len();
            new_vs.push(v.clone());
        }
    }
    u.vsets = new_vs;
    for un in u.unions.iter_mut() {
        for m in un.members.iter_mut() {
            *m = vs_map[*m];
        }
    }
    let remap = |r: &mut Req| match r {
        Req::Single(i) => *i = vs_map[*i],
        Req::Union(i) => *i = union_map[*i],
    };
    for p in ps.iter_mut() {
        for r in p.reqs.iter_mut() {
            remap(r);
        }
        for c in p.constraints.iter_mut() {
            *c = vs_map[*c];
        }
    }
    for pk in u.packages.iter_mut() {
        for c in pk.cands.iter_mut().chain(pk.unlisted.iter_mut()) {
            if let Deps::Known { reqs, constrains } = &mut c.deps {
                for r in reqs.iter_mut() {
                    remap(r);
                }
                for v in constrains.iter_mut() {
                    *v = vs_map[*v];
                }
            }
        }
    }
    // packages: remove packages that nothing refers to
    let mut used_pkg = vec![false; u.packages.len()];
    for v in &u.vsets {
        used_pkg[v.pkg] = true;
    }
    for p in ps.iter() {
        for s in &p.soft {
            used_pkg[s.pkg] = true;
        }
    }
    let mut pkg_map = vec![usize::MAX; u.packages.len()];
    let mut new_pk = vec![];
    for (i, pk) in u.packages.iter().enumerate() {
        if used_pkg[i] {
            pkg_map[i] = new_pk.len();
            new_pk.push(pk.clone());
        }
    }
    u.packages = new_pk;
    for v in u.vsets.iter_mut() {
        v.pkg = pkg_map[v.pkg];
    }
    for p in ps.iter_mut() {
        for s in p.soft.iter_mut() {
            s.pkg = pkg_map[s.pkg];
        }
    }
}

fn densify_ids(u: &mut Universe) {
    for (i, pk) in u.packages.iter_mut().enumerate() {
        pk.name_id = i as u32;
    }
    let mut n = 0;
    for pk in u.packages.iter_mut() {
        for c in pk.cands.iter_mut().chain(pk.unlisted.iter_mut()) {
            c.sid = n;
            n += 1;
        }
    }
    for (i, v) in u.vsets.iter_mut().enumerate() {
        v.id = i as u32;
    }
    for (i, v) in u.unions.iter_mut().enumerate() {
        v.id = i as u32;
    }
    for (i, v) in u.strings.iter_mut().enumerate() {
        v.id = i as u32;
    }
}

/// Visits the single-step simplifications of a case, most aggressive first, until `visit`
/// accepts one (returns true). Candidates are built one at a time: a case with thousands of
/// candidates has tens of thousands of edits, and materialising them all for every round made
/// minimisation of the huge-package stages take hours.
fn candidates_for(sc: &StructCase, visit: &mut dyn FnMut(StructCase) -> bool) -> bool {
    let mut done = false;
    let mut push = |f: &dyn Fn(&mut StructCase) -> bool| {
        if done {
            return;
        }
        let mut c = sc.clone();
        if f(&mut c) && c != *sc {
            done = visit(c);
        }
    };
    // runtime -> sync, extra -> shorter
    push(&|c| {
        c.rt = Runtime::Sync;
        true
    });
    push(&|c| {
        c.extra.clear();
        true
    });
    push(&|c| {
        let n = c.extra.len() / 2;
        c.extra.truncate(n);
        true
    });
    // problem parts
    for i in 0..sc.problem.reqs.len() {
        push(&|c| {
            c.problem.reqs.remove(i);
            true
        });
    }
    for i in 0..sc.problem.constraints.len() {
        push(&|c| {
            c.problem.constraints.remove(i);
            true
        });
    }
    for i in 0..sc.problem.soft.len() {
        push(&|c| {
            c.problem.soft.remove(i);
            true
        });
    }
    // clear all dependencies of a whole package / a candidate
    for pi in 0..sc.u.packages.len() {
        push(&|c| {
            for cd in c.u.packages[pi].cands.iter_mut() {
                cd.deps = Deps::empty();
            }
            true
        });
        push(&|c| {
            let n = c.u.packages[pi].cands.len();
            for k in (0..n).rev() {
                let StructCase { u, problem, more, .. } = c;
                let mut ps: Vec<&mut Problem> = std::iter::once(problem).chain(more.iter_mut()).collect();
                remove_cand(u, &mut ps, pi, k);
            }
            c.u.packages[pi].unlisted.clear();
            c.u.packages[pi].lock_gone = false;
            for p in c.all_problems() {
                p.soft.retain(|s| s.pkg != pi);
            }
            true
        });
    }
    // big packages: remove blocks of candidates (halves, quarters, ...) before single ones
    for pi in 0..sc.u.packages.len() {
        let n = sc.u.packages[pi].cands.len();
        let mut chunk = n / 2;
        while chunk >= 4 {
            let mut start = 0;
            while start < n {
                let end = (start + chunk).min(n);
                push(&|c| {
                    for k in (start..end).rev() {
                        let StructCase { u, problem, more, .. } = c;
                        let mut ps: Vec<&mut Problem> = std::iter::once(problem).chain(more.iter_mut()).collect();
                        remove_cand(u, &mut ps, pi, k);
                    }
                    true
                });
                start = end;
            }
            chunk /= 2;
        }
    }
    // many packages: remove blocks of requirements of the problem
    {
        let n = sc.problem.reqs.len();
        let mut chunk = n / 2;
        while chunk >= 4 {
            let mut start = 0;
            while start < n {
                let end = (start + chunk).min(n);
                push(&|c| {
                    c.problem.reqs.drain(start..end);
                    true
                });
                start = end;
            }
            chunk /= 2;
        }
    }
    for pi in 0..sc.u.packages.len() {
        let pk = &sc.u.packages[pi];
        for ci in (0..pk.cands.len()).rev() {
            push(&|c| {
                let StructCase { u, problem, more, .. } = c;
                let mut ps: Vec<&mut Problem> = std::iter::once(problem).chain(more.iter_mut()).collect();
                remove_cand(u, &mut ps, pi, ci);
                true
            });
            push(&|c| {
                c.u.packages[pi].cands[ci].deps = Deps::empty();
                true
            });
            push(&|c| {
                c.u.packages[pi].cands[ci].excluded = None;
                true
            });
            if let Deps::Known { reqs, constrains } = &pk.cands[ci].deps {
                for ri in 0..reqs.len() {
                    push(&|c| {
                        if let Deps::Known { reqs, .. } = &mut c.u.packages[pi].cands[ci].deps {
                            reqs.remove(ri);
                        }
                        true
                    });
                    if let Req::Union(un) = &reqs[ri] {
                        for &m in &sc.u.unions[*un].members {
                            push(&|c| {
                                if let Deps::Known { reqs, .. } = &mut c.u.packages[pi].cands[ci].deps {
                                    reqs[ri] = Req::Single(m);
                                }
                                true
                            });
                        }
                    }
                }
                for ki in 0..constrains.len() {
                    push(&|c| {
                        if let Deps::Known { constrains, .. } = &mut c.u.packages[pi].cands[ci].deps {
                            constrains.remove(ki);
                        }
                        true
                    });
                }
            }
        }
        for ui in (0..pk.unlisted.len()).rev() {
            push(&|c| {
                if c.all_problems().iter().any(|p| p.soft.iter().any(|s| s.pkg == pi && !s.listed)) {
                    return false;
                }
                if c.u.packages[pi].lock_gone && c.u.packages[pi].unlisted.len() == 1 {
                    return false;
                }
                c.u.packages[pi].unlisted.remove(ui);
                true
            });
            push(&|c| {
                c.u.packages[pi].unlisted[ui].deps = Deps::empty();
                true
            });
        }
        push(&|c| {
            c.u.packages[pi].hint = Hint::None;
            c.u.packages[pi].hint_unlisted = false;
            true
        });
        push(&|c| {
            c.u.packages[pi].hint_unlisted = false;
            true
        });
        push(&|c| {
            c.u.packages[pi].favored = None;
            true
        });
        push(&|c| {
            c.u.packages[pi].locked = None;
            c.u.packages[pi].lock_gone = false;
            true
        });
        push(&|c| {
            c.u.packages[pi].missing = false;
            true
        });
        push(&|c| {
            let n = c.u.packages[pi].cands.len();
            c.u.packages[pi].sort_rank = (0..n).collect();
            true
        });
    }
    for i in 0..sc.problem.reqs.len() {
        if let Req::Union(un) = &sc.problem.reqs[i] {
            for &m in &sc.u.unions[*un].members {
                push(&|c| {
                    c.problem.reqs[i] = Req::Single(m);
                    true
                });
            }
        }
    }
    // widen / narrow version sets towards "all"
    for vi in 0..sc.u.vsets.len() {
        push(&|c| {
            let n = c.u.packages[c.u.vsets[vi].pkg].cands.len();
            c.u.vsets[vi].matches = (0..n).collect();
            true
        });
    }
    push(&|c| {
        let StructCase { u, problem, more, .. } = c;
        let mut ps: Vec<&mut Problem> = std::iter::once(problem).chain(more.iter_mut()).collect();
        collect_garbage(u, &mut ps);
        true
    });
    // later problems of a history
    for mi in (0..sc.more.len()).rev() {
        push(&|c| {
            c.more.remove(mi);
            true
        });
        for i in 0..sc.more[mi].reqs.len() {
            push(&|c| {
                c.more[mi].reqs.remove(i);
                true
            });
        }
        for i in 0..sc.more[mi].constraints.len() {
            push(&|c| {
                c.more[mi].constraints.remove(i);
                true
            });
        }
        for i in 0..sc.more[mi].soft.len() {
            push(&|c| {
                c.more[mi].soft.remove(i);
                true
            });
        }
    }
    push(&|c| {
        densify_ids(&mut c.u);
        true
    });
    done
}

/// Applies accepted simplifications until none is left, the evaluation budget is used up, or
/// the work budget (candidates tried x size of the case: deterministic, unlike a clock) is.
pub fn minimize(start: StructCase, fails: &dyn Fn(&StructCase) -> bool, budget: usize) -> StructCase {
    let mut best = start;
    let mut evals = 0usize;
    let mut work = 0u64;
    const WORK_BUDGET: u64 = 400_000_000;
    // the clock only bounds how small the replay file gets (building the edits of a case with
    // thousands of candidates is itself expensive), never a verdict
    let started = std::time::Instant::now();
    let max_secs = std::env::var("VERIF_MINIMIZE_SECS").ok().and_then(|s| s.parse().ok()).unwrap_or(150u64);
    loop {
        let size = (best.u.n_solvables() + best.u.vsets.len() + best.u.packages.len() + 16) as u64;
        let mut next: Option<StructCase> = None;
        let mut exhausted = false;
        candidates_for(&best, &mut |cand: StructCase| {
            if evals >= budget || work >= WORK_BUDGET || started.elapsed().as_secs() >= max_secs {
                exhausted = true;
                return true;
            }
            work += size;
            if check_well_formed(&cand.u, &cand.problem).is_err()
                || cand.more.iter().any(|p| check_well_formed(&cand.u, p).is_err())
            {
                return false;
            }
            evals += 1;
            if fails(&cand) {
                next = Some(cand);
                return true;
            }
            false
        });
        match next {
            Some(c) if !exhausted => best = c,
            _ => break,
        }
    }
    best
}

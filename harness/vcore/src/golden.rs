//! Golden cases: universes hand-translated from the repository's own tests
//! (tests/solver.rs) with the outcome those tests pin. They (a) validate the reference
//! resolver and the oracles against expectations that were NOT written by this harness,
//! (b) are exported as structured regression cases that every solve-based check replays
//! first, and (c) seed the fuzz corpora.

use crate::minimize::StructCase;
use crate::model::*;
use crate::run::Runtime;

pub struct Golden {
    pub name: &'static str,
    pub case: StructCase,
    /// `Some(sorted ["name=version", ..])` for a pinned solution, `None` for a pinned Unsolvable
    pub expected: Option<Vec<String>>,
}

struct B {
    u: Universe,
    pending: Vec<(usize, u32, u32)>,
    unions: Vec<Vec<usize>>,
}

impl B {
    fn new() -> Self {
        let mut u = Universe::default();
        u.strings.push(Str {
            id: 0,
            text: "it is externally excluded".into(),
        });
        B {
            u,
            pending: vec![],
            unions: vec![],
        }
    }

    fn pkg(&mut self, name: &str) -> usize {
        if let Some(i) = self.u.packages.iter().position(|p| p.name == name) {
            return i;
        }
        self.u.packages.push(Package {
            name_id: 0,
            name: name.to_string(),
            missing: true, // until a candidate is added (tests/solver.rs returns None for unknown names)
            cands: vec![],
            sort_rank: vec![],
            favored: None,
            locked: None,
            lock_gone: false,
            hint_unlisted: false,
            hint: Hint::None,
            unlisted: vec![],
        });
        self.u.packages.len() - 1
    }

    /// "name", "name 3", "name 2..5"
    fn spec(&mut self, s: &str) -> (usize, u32, u32) {
        let mut it = s.split(' ');
        let name = it.next().unwrap();
        let p = self.pkg(name);
        match it.next() {
            None => (p, 0, u32::MAX),
            Some(r) => match r.split_once("..") {
                Some((a, b)) => (p, a.parse().unwrap(), b.parse().unwrap()),
                None => {
                    let v: u32 = r.parse().unwrap();
                    (p, v, v + 1)
                }
            },
        }
    }

    fn vs_of(&mut self, s: &str) -> usize {
        let key = self.spec(s.trim());
        if let Some(i) = self.pending.iter().position(|x| *x == key) {
            return i;
        }
        self.pending.push(key);
        self.pending.len() - 1
    }

    fn req_of(&mut self, s: &str) -> Req {
        let parts: Vec<&str> = s.split('|').map(|x| x.trim()).collect();
        if parts.len() == 1 {
            Req::Single(self.vs_of(parts[0]))
        } else {
            let members = parts.iter().map(|p| self.vs_of(p)).collect();
            self.unions.push(members);
            Req::Union(self.unions.len() - 1)
        }
    }

    fn finish(mut self, specs: Vec<(usize, Vec<String>, Vec<String>)>, root: &[&str], constraints: &[&str]) -> (Universe, Problem) {
        let mut deps: Vec<(usize, Vec<Req>, Vec<usize>)> = vec![];
        for (flat, reqs, cons) in &specs {
            let r: Vec<Req> = reqs.iter().map(|s| self.req_of(s)).collect();
            let c: Vec<usize> = cons.iter().map(|s| self.vs_of(s)).collect();
            deps.push((*flat, r, c));
        }
        let root_reqs: Vec<Req> = root.iter().map(|s| self.req_of(s)).collect();
        let root_cons: Vec<usize> = constraints.iter().map(|s| self.vs_of(s)).collect();
        let pending = std::mem::take(&mut self.pending);
        let unions = std::mem::take(&mut self.unions);
        // materialise
        for (i, (p, lo, hi)) in pending.iter().enumerate() {
            let matches: Vec<usize> = self.u.packages[*p]
                .cands
                .iter()
                .enumerate()
                .filter(|(_, c)| c.version >= *lo && c.version < *hi)
                .map(|(k, _)| k)
                .collect();
            self.u.vsets.push(VSet {
                id: i as u32,
                pkg: *p,
                matches,
            });
        }
        for (i, m) in unions.into_iter().enumerate() {
            self.u.unions.push(Union {
                id: i as u32,
                members: m,
            });
        }
        // flat candidate index -> (pkg, idx)
        let mut flat = vec![];
        for (pi, p) in self.u.packages.iter().enumerate() {
            for ci in 0..p.cands.len() {
                flat.push((p.cands[ci].sid, pi, ci));
            }
        }
        for (f, r, c) in deps {
            let (_, pi, ci) = *flat.iter().find(|x| x.0 == f as u32).unwrap();
            if !matches!(self.u.packages[pi].cands[ci].deps, Deps::Unknown(_)) {
                self.u.packages[pi].cands[ci].deps = Deps::Known { reqs: r, constrains: c };
            }
        }
        for (i, p) in self.u.packages.iter_mut().enumerate() {
            p.name_id = i as u32;
            // highest version first
            let mut order: Vec<usize> = (0..p.cands.len()).collect();
            order.sort_by(|a, b| p.cands[*b].version.cmp(&p.cands[*a].version));
            p.sort_rank = order;
        }
        (
            self.u,
            Problem {
                reqs: root_reqs,
                constraints: root_cons,
                soft: vec![],
            },
        )
    }
}

type Pk<'a> = (&'a str, u32, Vec<&'a str>, Vec<&'a str>);

#[allow(clippy::too_many_arguments)]
fn case(
    name: &'static str,
    packages: &[Pk],
    favored: &[(&str, u32)],
    locked: &[(&str, u32)],
    excluded: &[(&str, u32)],
    unknown: &[(&str, u32)],
    root: &[&str],
    constraints: &[&str],
    expected: Option<&[&str]>,
) -> Golden {
    let mut b = B::new();
    let mut specs = vec![];
    let mut sid = 0u32;
    for (n, v, deps, cons) in packages {
        let p = b.pkg(n);
        b.u.packages[p].missing = false;
        b.u.packages[p].cands.push(Cand {
            sid,
            version: *v,
            deps: if unknown.contains(&(*n, *v)) { Deps::Unknown(0) } else { Deps::empty() },
            excluded: if excluded.contains(&(*n, *v)) { Some(0) } else { None },
        });
        specs.push((
            sid as usize,
            deps.iter().map(|s| s.to_string()).collect(),
            cons.iter().map(|s| s.to_string()).collect(),
        ));
        sid += 1;
    }
    for (n, v) in favored {
        let p = b.pkg(n);
        b.u.packages[p].favored = b.u.packages[p].cands.iter().position(|c| c.version == *v);
    }
    for (n, v) in locked {
        let p = b.pkg(n);
        b.u.packages[p].locked = b.u.packages[p].cands.iter().position(|c| c.version == *v);
    }
    let (u, problem) = b.finish(specs, root, constraints);
    check_well_formed(&u, &problem).unwrap_or_else(|e| panic!("HARNESS: golden case {name} is not well-formed: {e}"));
    Golden {
        name,
        case: StructCase {
            u,
            problem,
            rt: Runtime::Sync,
            extra: vec![],
            more: vec![],
        },
        expected: expected.map(|e| {
            let mut v: Vec<String> = e.iter().map(|s| s.to_string()).collect();
            v.sort();
            v
        }),
    }
}

fn p<'a>(n: &'a str, v: u32, deps: &[&'a str]) -> Pk<'a> {
    (n, v, deps.to_vec(), vec![])
}
fn pc<'a>(n: &'a str, v: u32, deps: &[&'a str], cons: &[&'a str]) -> Pk<'a> {
    (n, v, deps.to_vec(), cons.to_vec())
}

pub fn all() -> Vec<Golden> {
    vec![
        case("unit_propagation_nested", &[p("asdf", 1, &["efgh"]), p("efgh", 4, &[]), p("dummy", 6, &[])], &[], &[], &[], &[], &["asdf"], &[], Some(&["asdf=1", "efgh=4"])),
        case("resolve_multiple", &[p("asdf", 1, &[]), p("asdf", 2, &[]), p("efgh", 4, &[]), p("efgh", 5, &[])], &[], &[], &[], &[], &["asdf", "efgh"], &[], Some(&["asdf=2", "efgh=5"])),
        case(
            "resolve_with_conflict",
            &[p("asdf", 4, &["conflicting 1"]), p("asdf", 3, &["conflicting 0"]), p("efgh", 7, &["conflicting 0"]), p("efgh", 6, &["conflicting 0"]), p("conflicting", 1, &[]), p("conflicting", 0, &[])],
            &[], &[], &[], &[], &["asdf", "efgh"], &[], Some(&["asdf=3", "conflicting=0", "efgh=7"]),
        ),
        case("resolve_with_nonexisting", &[p("asdf", 4, &["b"]), p("asdf", 3, &[]), p("b", 1, &["idontexist"])], &[], &[], &[], &[], &["asdf"], &[], Some(&["asdf=3"])),
        case(
            "resolve_with_nested_deps",
            &[
                p("apache-airflow", 3, &["opentelemetry-api 2..4", "opentelemetry-exporter-otlp"]),
                p("apache-airflow", 2, &["opentelemetry-api 2..4", "opentelemetry-exporter-otlp"]),
                p("apache-airflow", 1, &[]),
                p("opentelemetry-api", 3, &["opentelemetry-sdk"]),
                p("opentelemetry-api", 2, &[]),
                p("opentelemetry-api", 1, &[]),
                p("opentelemetry-exporter-otlp", 1, &["opentelemetry-grpc"]),
                p("opentelemetry-grpc", 1, &["opentelemetry-api 1"]),
            ],
            &[], &[], &[], &[], &["apache-airflow"], &[], Some(&["apache-airflow=1"]),
        ),
        case("resolve_with_unknown_deps", &[p("opentelemetry-api", 3, &[]), p("opentelemetry-api", 2, &[])], &[], &[], &[], &[("opentelemetry-api", 3)], &["opentelemetry-api"], &[], Some(&["opentelemetry-api=2"])),
        case("resolve_locked_top_level", &[p("asdf", 4, &[]), p("asdf", 3, &[])], &[], &[("asdf", 3)], &[], &[], &["asdf"], &[], Some(&["asdf=3"])),
        case("resolve_ignored_locked_top_level", &[p("asdf", 4, &[]), p("asdf", 3, &["fgh"]), p("fgh", 1, &[])], &[], &[("fgh", 1)], &[], &[], &["asdf"], &[], Some(&["asdf=4"])),
        case("resolve_favor_without_conflict", &[p("a", 1, &[]), p("a", 2, &[]), p("b", 1, &[]), p("b", 2, &[])], &[("a", 1), ("b", 1)], &[], &[], &[], &["a", "b 2"], &[], Some(&["a=1", "b=2"])),
        case(
            "resolve_favor_with_conflict",
            &[p("a", 1, &["c 1"]), p("a", 2, &[]), p("b", 1, &["c 1"]), p("b", 2, &["c 2"]), p("c", 1, &[]), p("c", 2, &[])],
            &[("a", 1), ("b", 1), ("c", 1)], &[], &[], &[], &["a", "b 2"], &[], Some(&["a=2", "b=2", "c=2"]),
        ),
        case("resolve_cyclic", &[p("a", 2, &["b 0..10"]), p("b", 5, &["a 2..4"])], &[], &[], &[], &[], &["a 0..100"], &[], Some(&["a=2", "b=5"])),
        case(
            "resolve_union_requirements",
            &[p("a", 1, &[]), p("b", 1, &[]), p("c", 1, &["a"]), p("d", 1, &["b"]), p("e", 1, &["a | b"]), pc("f", 1, &["b"], &["a 2"])],
            &[], &[], &[], &[], &["c | d", "e", "f"], &[], Some(&["b=1", "d=1", "e=1", "f=1"]),
        ),
        case("unsat_locked_and_excluded", &[p("asdf", 1, &["c 2"]), p("c", 2, &[]), p("c", 1, &[])], &[], &[("c", 1)], &[], &[], &["asdf"], &[], None),
        case("unsat_no_candidates_for_child_1", &[p("asdf", 1, &["c 2"]), p("c", 1, &[])], &[], &[], &[], &[], &["asdf"], &[], None),
        case("unsat_no_candidates_for_child_2", &[p("a", 41, &["B 0..20"])], &[], &[], &[], &[], &["a 0..1000"], &[], None),
        case("unsat_missing_top_level_dep_1", &[p("asdf", 1, &[])], &[], &[], &[], &[], &["fghj"], &[], None),
        case("unsat_missing_top_level_dep_2", &[p("a", 41, &["b 15"]), p("b", 15, &[])], &[], &[], &[], &[], &["a 41", "b 14"], &[], None),
        case(
            "unsat_after_backtracking",
            &[p("b", 7, &["d 1"]), p("b", 6, &["d 1"]), p("c", 1, &["d 2"]), p("c", 2, &["d 2"]), p("d", 2, &[]), p("d", 1, &[]), p("e", 1, &[]), p("e", 2, &[])],
            &[], &[], &[], &[], &["b", "c", "e"], &[], None,
        ),
        case("unsat_incompatible_root_requirements", &[p("a", 2, &[]), p("a", 5, &[])], &[], &[], &[], &[], &["a 0..4", "a 5..10"], &[], None),
        case(
            "unsat_bluesky_conflict",
            &[
                p("suitcase-utils", 54, &[]),
                p("suitcase-utils", 53, &[]),
                p("bluesky-widgets", 42, &["bluesky-live 0..10", "numpy 0..10", "python 0..10", "suitcase-utils 0..54"]),
                p("bluesky-live", 1, &[]),
                p("numpy", 1, &[]),
                p("python", 1, &[]),
            ],
            &[], &[], &[], &[], &["bluesky-widgets 0..100", "suitcase-utils 54..100"], &[], None,
        ),
        case(
            "unsat_pubgrub_article",
            &[p("menu", 15, &["dropdown 2..3"]), p("menu", 10, &["dropdown 1..2"]), p("dropdown", 2, &["icons 2"]), p("dropdown", 1, &["intl 3"]), p("icons", 2, &[]), p("icons", 1, &[]), p("intl", 5, &[]), p("intl", 3, &[])],
            &[], &[], &[], &[], &["menu", "icons 1", "intl 5"], &[], None,
        ),
        case(
            "unsat_applies_graph_compression",
            &[p("a", 10, &["b"]), p("a", 9, &["b"]), p("b", 100, &["c 0..100"]), p("b", 42, &["c 0..100"]), p("c", 103, &[]), p("c", 101, &[]), p("c", 100, &[]), p("c", 99, &[])],
            &[], &[], &[], &[], &["a", "c 101..104"], &[], None,
        ),
        case(
            "unsat_constrains",
            &[p("a", 10, &["b 50..100"]), p("a", 9, &["b 50..100"]), p("b", 50, &[]), p("b", 42, &[]), pc("c", 10, &[], &["b 0..50"]), pc("c", 8, &[], &["b 0..50"])],
            &[], &[], &[], &[], &["a", "c"], &[], None,
        ),
        case(
            "unsat_constrains_2",
            &[p("a", 1, &["b"]), p("a", 2, &["b"]), p("b", 1, &["c 1"]), p("b", 2, &["c 2"]), pc("c", 1, &[], &["a 3"]), pc("c", 2, &[], &["a 3"])],
            &[], &[], &[], &[], &["a"], &[], None,
        ),
        case("missing_dep", &[p("a", 2, &["missing"]), p("a", 1, &[])], &[], &[], &[], &[], &["a"], &[], Some(&["a=1"])),
        case(
            "no_backtracking",
            &[
                p("quetz-server", 2, &["pydantic 10..20"]), p("quetz-server", 1, &["pydantic 0..10"]),
                p("pydantic", 1, &[]), p("pydantic", 2, &[]), p("pydantic", 3, &[]), p("pydantic", 4, &[]), p("pydantic", 5, &[]), p("pydantic", 6, &[]), p("pydantic", 7, &[]),
                p("pydantic", 8, &[]), p("pydantic", 9, &[]), p("pydantic", 10, &[]), p("pydantic", 11, &[]), p("pydantic", 12, &[]), p("pydantic", 13, &[]), p("pydantic", 14, &[]),
            ],
            &[], &[], &[], &[], &["quetz-server", "pydantic 0..10"], &[], Some(&["pydantic=9", "quetz-server=1"]),
        ),
        case(
            "incremental_crash",
            &[p("a", 3, &["missing"]), p("a", 2, &["missing"]), p("a", 1, &["b"]), p("b", 2, &["a 2..4"]), p("b", 1, &[])],
            &[], &[], &[], &[], &["a"], &[], Some(&["a=1", "b=1"]),
        ),
        case("excluded", &[p("a", 2, &["b"]), p("a", 1, &["c"]), p("b", 1, &[]), p("c", 1, &[])], &[], &[], &[("b", 1), ("c", 1)], &[], &["a"], &[], None),
        case("merge_excluded", &[p("a", 1, &[]), p("a", 2, &[])], &[], &[], &[("a", 1), ("a", 2)], &[], &["a"], &[], None),
        case("merge_installable", &[p("a", 1, &[]), p("a", 2, &[]), p("a", 3, &[]), p("a", 4, &[])], &[], &[], &[], &[], &["a 0..3", "a 3..5"], &[], None),
        case("root_excluded", &[p("a", 1, &[])], &[], &[], &[("a", 1)], &[], &["a"], &[], None),
        case("constraints", &[p("a", 1, &["b 0..10"]), p("b", 1, &[]), p("b", 2, &[]), p("c", 1, &[])], &[], &[], &[], &[], &["a 0..10"], &["b 1..2", "c"], Some(&["a=1", "b=1"])),
        case("union_empty_requirements", &[p("a", 1, &["b 1 | c"]), p("b", 1, &[])], &[], &[], &[], &[], &["a"], &[], Some(&["a=1", "b=1"])),
        case(
            "explicit_root_requirements",
            &[p("a", 1, &["b"]), p("b", 1, &["c"]), p("b", 2, &["c 1..2"]), p("c", 1, &[]), p("c", 2, &[]), p("c", 3, &[]), p("c", 4, &[]), p("c", 5, &[])],
            &[], &[], &[], &[], &["a", "c"], &[], Some(&["a=1", "b=1", "c=5"]),
        ),
    ]
}

/// Solves every golden case with resolvo and with the reference resolver and compares both
/// with the outcome pinned by the repository's tests. Returns a list of disagreements.
pub fn self_check() -> Vec<String> {
    use crate::reference::{exists_solution, Exists};
    use crate::run::{run_once, Outcome, RunCfg};
    let mut bad = vec![];
    for g in all() {
        let u = std::rc::Rc::new(g.case.u.clone());
        let ix = Index::new(&u);
        let refv = exists_solution(&u, &g.case.problem, &[], 1_000_000);
        let want_sat = g.expected.is_some();
        match refv {
            Exists::Yes(_) if want_sat => {}
            Exists::No if !want_sat => {}
            other => bad.push(format!("{}: reference resolver says {:?}, repository test pins {}", g.name, other, if want_sat { "a solution" } else { "Unsolvable" })),
        }
        let res = run_once(&u, &g.case.problem, &RunCfg::default());
        match (&res.outcome, &g.expected) {
            (Outcome::Sat(sol), Some(exp)) => {
                let mut got: Vec<String> = sol.iter().map(|id| u.display_solvable(ix.solvable[id])).collect();
                got.sort();
                if &got != exp {
                    bad.push(format!("{}: resolvo returns {:?}, repository test pins {:?}", g.name, got, exp));
                }
            }
            (Outcome::Unsat(_), None) => {}
            (o, e) => bad.push(format!("{}: resolvo returns {}, repository test pins {:?}", g.name, o.kind(), e)),
        }
    }
    bad
}

//! Oracles over public outputs: conflict-graph truthfulness (C03), a tiny DPLL for the
//! "facts in the graph alone are unsatisfiable" check, and call-log invariants.

use crate::model::*;
use crate::run::*;
use std::collections::{BTreeMap, BTreeSet, HashMap};

#[derive(Debug, Clone, PartialEq, Eq)]
pub struct Fail {
    pub clause: &'static str,
    pub detail: String,
}

fn fail<T>(clause: &'static str, detail: String) -> Result<T, Fail> {
    Err(Fail { clause, detail })
}

/// Tiny DPLL over clauses of (var, polarity). `Some(true)` = satisfiable, `Some(false)` =
/// unsatisfiable, `None` = the (deterministic) node budget ran out: no verdict.
/// Branches on a literal of a shortest open clause, satisfying polarity first.
pub fn dpll(nvars: usize, clauses: &[Vec<(usize, bool)>]) -> Option<bool> {
    fn go(assign: &mut Vec<Option<bool>>, clauses: &[Vec<(usize, bool)>], budget: &mut u64) -> Option<bool> {
        if *budget == 0 {
            return None;
        }
        *budget -= 1;
        // unit propagation
        let mut trail: Vec<usize> = vec![];
        let mut branch: Option<(usize, bool)>;
        loop {
            let mut changed = false;
            branch = None;
            let mut best = usize::MAX;
            for c in clauses {
                let mut unassigned = None;
                let mut n_un = 0;
                let mut sat = false;
                for &(v, pol) in c {
                    match assign[v] {
                        Some(x) if x == pol => {
                            sat = true;
                            break;
                        }
                        Some(_) => {}
                        None => {
                            n_un += 1;
                            if unassigned.is_none() {
                                unassigned = Some((v, pol));
                            }
                        }
                    }
                }
                if sat {
                    continue;
                }
                if n_un == 0 {
                    for v in trail {
                        assign[v] = None;
                    }
                    return Some(false);
                }
                if n_un == 1 {
                    let (v, pol) = unassigned.unwrap();
                    assign[v] = Some(pol);
                    trail.push(v);
                    changed = true;
                } else if n_un < best {
                    best = n_un;
                    branch = unassigned;
                }
            }
            if !changed {
                break;
            }
        }
        match branch {
            // every clause is satisfied: the remaining variables are free
            None => Some(true),
            Some((v, pol)) => {
                for val in [pol, !pol] {
                    assign[v] = Some(val);
                    match go(assign, clauses, budget) {
                        Some(true) => return Some(true),
                        Some(false) => {}
                        None => {
                            assign[v] = None;
                            for v in trail {
                                assign[v] = None;
                            }
                            return None;
                        }
                    }
                    assign[v] = None;
                }
                for v in trail {
                    assign[v] = None;
                }
                Some(false)
            }
        }
    }
    let mut assign = vec![None; nvars];
    let mut budget = 400_000u64;
    let r = go(&mut assign, clauses, &mut budget);
    DPLL_EXHAUSTED.with(|c| c.set(r.is_none()));
    r
}

thread_local! {
    /// the last `dpll` call on this thread ran out of budget (evidence label, never a verdict)
    pub static DPLL_EXHAUSTED: std::cell::Cell<bool> = const { std::cell::Cell::new(false) };
}

/// C03: edge truth + reachability + self-contained unsatisfiability.
pub fn check_conflict_graph(u: &Universe, ix: &Index, p: &Problem, g: &GraphData) -> Result<(), Fail> {
    let n = g.nodes.len();
    if g.root >= n || g.nodes[g.root] != GNode::Root {
        return fail("root-node", format!("root index {} is {:?}", g.root, g.nodes.get(g.root)));
    }
    if g.nodes.iter().filter(|x| **x == GNode::Root).count() != 1 {
        return fail("root-node", "more than one root node".into());
    }
    let sref_of = |i: usize| -> Result<SRef, Fail> {
        match &g.nodes[i] {
            GNode::Solvable(sid) => ix.solvable.get(sid).copied().ok_or(Fail {
                clause: "unknown-solvable",
                detail: format!("solvable id {sid} not in universe"),
            }),
            other => fail("edge-endpoint", format!("expected solvable node, found {other:?}")),
        }
    };
    let name_of = |i: usize| -> String {
        match &g.nodes[i] {
            GNode::Root => "root".into(),
            GNode::Solvable(sid) => ix
                .solvable
                .get(sid)
                .map(|&s| u.display_solvable(s))
                .unwrap_or(format!("s{sid}?")),
            GNode::Unresolved => "unresolved".into(),
            GNode::Excluded(r) => format!("excluded[{r}]"),
        }
    };
    // requirements / constrains of a source node
    let deps_of = |i: usize| -> Result<(Vec<Req>, Vec<usize>), Fail> {
        match &g.nodes[i] {
            GNode::Root => Ok((p.reqs.clone(), p.constraints.clone())),
            GNode::Solvable(_) => {
                let s = sref_of(i)?;
                match &u.cand(s).deps {
                    Deps::Known { reqs, constrains } => Ok((reqs.clone(), constrains.clone())),
                    Deps::Unknown(_) => Ok((vec![], vec![])),
                }
            }
            other => fail("edge-source", format!("edge leaves {other:?}")),
        }
    };
    // group requires edges
    let mut groups: BTreeMap<(usize, String), (GReq, BTreeSet<usize>)> = BTreeMap::new();
    for (src, dst, w) in &g.edges {
        match w {
            GEdge::Requires(r) => {
                groups
                    .entry((*src, format!("{r:?}")))
                    .or_insert_with(|| (r.clone(), BTreeSet::new()))
                    .1
                    .insert(*dst);
            }
            GEdge::Constrains(vsid) => {
                let vs = *ix.vset.get(vsid).ok_or(Fail {
                    clause: "constrains-edge",
                    detail: format!("unknown version set {vsid}"),
                })?;
                let (_, cons) = deps_of(*src)?;
                if !cons.contains(&vs) {
                    return fail(
                        "constrains-edge",
                        format!("{} does not constrain {}", name_of(*src), u.display_vs(vs)),
                    );
                }
                let y = sref_of(*dst)?;
                if !y.listed || y.pkg != u.vsets[vs].pkg {
                    return fail(
                        "constrains-edge",
                        format!("{} is not a candidate of the constrained package", name_of(*dst)),
                    );
                }
                if u.vs_matches(vs, y) {
                    return fail(
                        "constrains-edge",
                        format!("{} matches {} yet is shown as conflicting", name_of(*dst), u.display_vs(vs)),
                    );
                }
            }
            GEdge::Locked(lsid) => {
                if *src != g.root {
                    return fail("lock-edge", format!("lock edge leaves {}", name_of(*src)));
                }
                let y = sref_of(*dst)?;
                let l = *ix.solvable.get(lsid).ok_or(Fail {
                    clause: "lock-edge",
                    detail: format!("unknown locked solvable {lsid}"),
                })?;
                let pk = &u.packages[y.pkg];
                let is_lock = if pk.lock_gone {
                    !l.listed && l.idx + 1 == pk.unlisted.len()
                } else {
                    l.listed && pk.locked == Some(l.idx)
                };
                if l.pkg != y.pkg || !is_lock || !y.listed || y == l {
                    return fail(
                        "lock-edge",
                        format!("{} is not locked out by {}", name_of(*dst), u.display_solvable(l)),
                    );
                }
            }
            GEdge::Excluded => {
                let x = sref_of(*src)?;
                let reason = match &g.nodes[*dst] {
                    GNode::Excluded(r) => *r,
                    other => return fail("excluded-edge", format!("excluded edge points at {other:?}")),
                };
                let ri = ix.string.get(&reason).copied();
                let c = u.cand(x);
                let by_provider = c.excluded.is_some() && c.excluded == ri;
                let by_unknown = matches!(&c.deps, Deps::Unknown(s) if Some(*s) == ri);
                if !(by_provider || by_unknown) {
                    return fail(
                        "excluded-edge",
                        format!("{} is not excluded for reason id {reason}", name_of(*src)),
                    );
                }
            }
            GEdge::Forbid => {
                let a = sref_of(*src)?;
                let b = sref_of(*dst)?;
                if a.pkg != b.pkg {
                    return fail(
                        "forbid-edge",
                        format!("{} and {} are different packages", name_of(*src), name_of(*dst)),
                    );
                }
            }
        }
    }
    for ((src, _), (r, targets)) in &groups {
        let req = match r {
            GReq::Single(v) => ix.vset.get(v).map(|&i| Req::Single(i)),
            GReq::Union(v) => ix.union.get(v).map(|&i| Req::Union(i)),
        }
        .ok_or(Fail {
            clause: "requires-edge",
            detail: format!("unknown requirement {r:?}"),
        })?;
        let (reqs, _) = deps_of(*src)?;
        if !reqs.contains(&req) {
            return fail(
                "requires-edge",
                format!("{} does not require {}", name_of(*src), u.display_req(&req)),
            );
        }
        let expected: BTreeSet<u32> = u.req_cands(&req).iter().map(|&c| u.cand(c).sid).collect();
        if expected.is_empty() {
            let ok = targets.len() == 1 && targets.iter().all(|&t| g.nodes[t] == GNode::Unresolved);
            if !ok {
                return fail(
                    "requires-edge",
                    format!(
                        "{} requires {} (no candidates) but targets are {:?}",
                        name_of(*src),
                        u.display_req(&req),
                        targets.iter().map(|&t| name_of(t)).collect::<Vec<_>>()
                    ),
                );
            }
        } else {
            let mut got = BTreeSet::new();
            for &t in targets {
                match &g.nodes[t] {
                    GNode::Solvable(sid) => {
                        got.insert(*sid);
                    }
                    other => {
                        return fail(
                            "requires-edge",
                            format!("requires edge with candidates points at {other:?}"),
                        )
                    }
                }
            }
            if got != expected {
                return fail(
                    "requires-edge",
                    format!(
                        "{} requires {}: targets {:?} != candidates {:?}",
                        name_of(*src),
                        u.display_req(&req),
                        got,
                        expected
                    ),
                );
            }
        }
    }
    // reachability
    let mut seen = vec![false; n];
    let mut stack = vec![g.root];
    seen[g.root] = true;
    while let Some(x) = stack.pop() {
        for (s, d, _) in &g.edges {
            if *s == x && !seen[*d] {
                seen[*d] = true;
                stack.push(*d);
            }
        }
    }
    if let Some(i) = seen.iter().position(|s| !s) {
        return fail("unreachable-node", format!("{} is not reachable from root", name_of(i)));
    }
    // self-containedness: facts in the graph alone
    let mut clauses: Vec<Vec<(usize, bool)>> = vec![vec![(g.root, true)]];
    for ((src, _), (_, targets)) in &groups {
        let mut c = vec![(*src, false)];
        for &t in targets {
            if matches!(g.nodes[t], GNode::Solvable(_) | GNode::Root) {
                c.push((t, true));
            }
        }
        clauses.push(c);
    }
    // forbid components
    let mut comp: HashMap<usize, usize> = HashMap::new();
    fn find(comp: &mut HashMap<usize, usize>, x: usize) -> usize {
        let p = *comp.entry(x).or_insert(x);
        if p == x {
            x
        } else {
            let r = find(comp, p);
            comp.insert(x, r);
            r
        }
    }
    for (s, d, w) in &g.edges {
        match w {
            GEdge::Constrains(_) => clauses.push(vec![(*s, false), (*d, false)]),
            GEdge::Locked(_) => clauses.push(vec![(*d, false)]),
            GEdge::Excluded => clauses.push(vec![(*s, false)]),
            GEdge::Forbid => {
                let a = find(&mut comp, *s);
                let b = find(&mut comp, *d);
                if a != b {
                    comp.insert(a, b);
                }
            }
            GEdge::Requires(_) => {}
        }
    }
    let keys: Vec<usize> = comp.keys().copied().collect();
    let mut members: BTreeMap<usize, Vec<usize>> = BTreeMap::new();
    for k in keys {
        let r = find(&mut comp, k);
        members.entry(r).or_default().push(k);
    }
    for m in members.values() {
        for i in 0..m.len() {
            for j in i + 1..m.len() {
                if m[i] != m[j] {
                    clauses.push(vec![(m[i], false), (m[j], false)]);
                }
            }
        }
    }
    if n <= 64 && dpll(n, &clauses) == Some(true) {
        return fail(
            "graph-satisfiable",
            "the facts shown in the conflict graph admit a selection that installs the root".into(),
        );
    }
    Ok(())
}

/// Number of distinct edge kinds besides Requires.
pub fn conflict_edge_kinds(g: &GraphData) -> usize {
    let mut k = BTreeSet::new();
    for (_, _, w) in &g.edges {
        match w {
            GEdge::Requires(_) => {}
            GEdge::Constrains(_) => {
                k.insert(1);
            }
            GEdge::Locked(_) => {
                k.insert(2);
            }
            GEdge::Forbid => {
                k.insert(3);
            }
            GEdge::Excluded => {
                k.insert(4);
            }
        }
    }
    k.len()
}

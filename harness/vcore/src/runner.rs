//! Generic property runner: proptest-driven tape generation and shrinking, worker
//! fan-out, known-finding suppression, watchdog, replay files and evidence.

use crate::minimize::{minimize, StructCase};
use proptest::strategy::{Strategy, ValueTree};
use proptest::test_runner::{Config, RngAlgorithm, TestRng, TestRunner};
use serde_json::{json, Value};
use std::collections::{BTreeMap, HashSet};
use std::hash::{Hash, Hasher};
use std::sync::atomic::{AtomicBool, Ordering};
use std::sync::{Arc, Mutex};
use std::time::{Duration, Instant};

#[derive(Clone, Copy, Debug, PartialEq, Eq)]
pub enum Tier {
    Quick,
    Thorough,
}

impl Tier {
    pub fn name(self) -> &'static str {
        match self {
            Tier::Quick => "quick",
            Tier::Thorough => "thorough",
        }
    }
}

#[derive(Clone, Debug)]
pub struct Failure {
    /// stable signature of the violated oracle clause (+ discriminating features)
    pub signature: String,
    pub detail: String,
}

#[derive(Clone, Debug, Default)]
pub struct CaseReport {
    /// how many solver executions / oracle evaluations this case comprised
    pub evaluations: u64,
    pub nontrivial: bool,
    /// hash of the decoded case (for distinctness)
    pub case_hash: u64,
    pub labels: Vec<&'static str>,
    /// Some(reason) if the case was discarded (never a verdict)
    pub skipped: Option<&'static str>,
    pub failure: Option<Failure>,
}

pub trait Property: Sync {
    fn id(&self) -> &'static str;
    /// stage name (a property may run several generator/oracle stages)
    fn stage(&self) -> &'static str {
        "main"
    }
    fn max_tape(&self) -> usize {
        1200
    }
    fn eval(&self, tape: &[u16]) -> CaseReport;
    /// human-readable rendering of the decoded case
    fn describe(&self, tape: &[u16]) -> String;
    fn rule(&self) -> String;
    /// evaluation budget for shrinking a failure (lower it when one evaluation is slow)
    fn shrink_budget(&self) -> usize {
        6000
    }
    /// seconds after which one case counts as hanging (typical case: < 1 ms; the constructed
    /// stages with cases of several seconds raise this so that a loaded machine is not a hang)
    fn hang_secs(&self) -> u64 {
        60
    }
    /// Properties over a universe/problem decode the tape into a structured case that
    /// can be minimised structurally and replayed without the generator.
    fn decode_struct(&self, _tape: &[u16]) -> Option<StructCase> {
        None
    }
    fn eval_struct(&self, _sc: &StructCase) -> CaseReport {
        unimplemented!("property has no structured form")
    }
    fn describe_struct(&self, sc: &StructCase) -> String {
        format!("{}runtime: {:?}\nextra tape: {:?}\n", sc.u.describe(&sc.problem), sc.rt, sc.extra)
    }
}

pub fn hash_of<T: Hash>(t: &T) -> u64 {
    // SipHash with fixed keys: deterministic across processes
    #[allow(deprecated)]
    let mut h = std::hash::SipHasher::new_with_keys(0x5eed, 0xc0ffee);
    t.hash(&mut h);
    h.finish()
}

#[derive(Clone, Debug, Default, serde::Serialize, serde::Deserialize)]
pub struct Stats {
    pub cases: u64,
    pub evaluations: u64,
    pub nontrivial_hashes: Vec<u64>,
    pub labels: BTreeMap<String, u64>,
    pub skipped: BTreeMap<String, u64>,
    pub known: BTreeMap<String, u64>,
    pub samples: Vec<String>,
    pub violations: Vec<ViolationRecord>,
    pub wall_s: f64,
}

#[derive(Clone, Debug, serde::Serialize, serde::Deserialize)]
pub struct ViolationRecord {
    pub property: String,
    pub stage: String,
    pub signature: String,
    pub detail: String,
    pub tape: Vec<u16>,
    #[serde(default)]
    pub case: Option<StructCase>,
    pub description: String,
    pub profile: String,
}

impl Stats {
    pub fn merge(&mut self, o: Stats) {
        self.cases += o.cases;
        self.evaluations += o.evaluations;
        self.nontrivial_hashes.extend(o.nontrivial_hashes);
        for (k, v) in o.labels {
            *self.labels.entry(k).or_default() += v;
        }
        for (k, v) in o.skipped {
            *self.skipped.entry(k).or_default() += v;
        }
        for (k, v) in o.known {
            *self.known.entry(k).or_default() += v;
        }
        for s in o.samples {
            if self.samples.len() < 4 {
                self.samples.push(s);
            }
        }
        self.violations.extend(o.violations);
        self.wall_s = self.wall_s.max(o.wall_s);
    }

    pub fn distinct_nontrivial(&self) -> usize {
        self.nontrivial_hashes.iter().collect::<HashSet<_>>().len()
    }
}

// ------------------------------------------------------------------ known findings

#[derive(Clone, Debug, serde::Serialize, serde::Deserialize)]
pub struct KnownFinding {
    pub id: String,
    /// properties in whose checks this signature is suppressed
    pub properties: Vec<String>,
    /// exact signature, or a prefix when it ends with '*'
    pub signature: String,
    /// "known" suppresses; "fixed" suppresses nothing
    pub status: String,
    pub description: String,
    #[serde(default)]
    pub replay: Option<String>,
    #[serde(default)]
    pub commit: Option<String>,
}

pub fn verif_root() -> std::path::PathBuf {
    std::env::var_os("VERIF_ROOT")
        .map(Into::into)
        .unwrap_or_else(|| std::path::PathBuf::from("/verif"))
}

pub fn load_known() -> Vec<KnownFinding> {
    let path = verif_root().join("known_findings.json");
    match std::fs::read_to_string(&path) {
        Ok(s) => serde_json::from_str::<Vec<KnownFinding>>(&s)
            .unwrap_or_else(|e| panic!("HARNESS: cannot parse {}: {e}", path.display())),
        Err(_) => vec![],
    }
}

pub fn match_known<'a>(known: &'a [KnownFinding], property: &str, signature: &str) -> Option<&'a KnownFinding> {
    known.iter().find(|k| {
        k.status == "known"
            && k.properties.iter().any(|p| p == property || p == "*")
            && if let Some(prefix) = k.signature.strip_suffix('*') {
                signature.starts_with(prefix)
            } else {
                k.signature == signature
            }
    })
}

// ------------------------------------------------------------------ running

pub fn profile_name() -> &'static str {
    if cfg!(debug_assertions) {
        "debug"
    } else {
        "release"
    }
}

fn rng_for(seed: u64, worker: u64, stage: &str) -> TestRng {
    let mut bytes = [0u8; 32];
    let h1 = hash_of(&(seed, worker, stage, 1u8));
    let h2 = hash_of(&(seed, worker, stage, 2u8));
    let h3 = hash_of(&(seed, worker, stage, 3u8));
    let h4 = hash_of(&(seed, worker, stage, 4u8));
    bytes[0..8].copy_from_slice(&h1.to_le_bytes());
    bytes[8..16].copy_from_slice(&h2.to_le_bytes());
    bytes[16..24].copy_from_slice(&h3.to_le_bytes());
    bytes[24..32].copy_from_slice(&h4.to_le_bytes());
    TestRng::from_seed(RngAlgorithm::ChaCha, &bytes)
}

struct Watch {
    slots: Vec<Mutex<Option<(Instant, Vec<u16>)>>>,
    stop: AtomicBool,
}

/// Shrink a failing tape with proptest's value tree; `fails` must be true for the same
/// failure signature only.
fn shrink<T: ValueTree<Value = Vec<u16>>>(
    mut tree: T,
    first: Vec<u16>,
    fails: &dyn Fn(&[u16]) -> bool,
    budget: usize,
) -> Vec<u16> {
    let max_iters = budget / 4;
    let mut last = first;
    let mut iters = 0;
    'outer: loop {
        if !tree.simplify() {
            break;
        }
        loop {
            iters += 1;
            if iters > max_iters {
                break 'outer;
            }
            let cur = tree.current();
            if fails(&cur) {
                last = cur;
                break;
            }
            if !tree.complicate() {
                break 'outer;
            }
        }
    }
    tape_passes(last, fails, budget)
}

/// Tape-aware shrink passes that complement proptest's generic `Vec` shrinking: because a
/// zero always decodes to the simplest alternative, *zeroing* aligned blocks simplifies
/// the case without shifting the meaning of the rest of the tape; then blocks are deleted,
/// then single values are lowered by binary search. Runs to a fixpoint or until the
/// evaluation budget is used.
pub fn tape_passes(mut best: Vec<u16>, fails: &dyn Fn(&[u16]) -> bool, budget: usize) -> Vec<u16> {
    let mut evals = 0usize;
    let mut try_it = |cand: &Vec<u16>, evals: &mut usize| -> bool {
        *evals += 1;
        fails(cand)
    };
    loop {
        let before = best.clone();
        // truncate from the end
        let mut cut = best.len() / 2;
        while cut >= 1 && evals < budget {
            if best.len() >= cut {
                let t = best[..best.len() - cut].to_vec();
                if try_it(&t, &mut evals) {
                    best = t;
                    continue;
                }
            }
            cut /= 2;
        }
        // zero blocks
        let mut size = 64usize;
        while size >= 1 && evals < budget {
            let mut i = 0;
            while i < best.len() && evals < budget {
                let end = (i + size).min(best.len());
                if best[i..end].iter().any(|&v| v != 0) {
                    let mut t = best.clone();
                    for v in &mut t[i..end] {
                        *v = 0;
                    }
                    if try_it(&t, &mut evals) {
                        best = t;
                    }
                }
                i += size;
            }
            size /= 2;
        }
        // delete blocks
        let mut size = 32usize;
        while size >= 1 && evals < budget {
            let mut i = 0;
            while i + size <= best.len() && evals < budget {
                let mut t = best.clone();
                t.drain(i..i + size);
                if try_it(&t, &mut evals) {
                    best = t;
                } else {
                    i += size;
                }
            }
            size /= 2;
        }
        // lower single values
        for i in 0..best.len() {
            if evals >= budget {
                break;
            }
            if best[i] == 0 {
                continue;
            }
            let (mut lo, mut hi) = (0u16, best[i]);
            // invariant: hi fails
            while lo < hi && evals < budget {
                let mid = lo + (hi - lo) / 2;
                let mut t = best.clone();
                t[i] = mid;
                if try_it(&t, &mut evals) {
                    hi = mid;
                } else {
                    lo = mid + 1;
                }
            }
            best[i] = hi;
        }
        while best.last() == Some(&0) {
            best.pop();
        }
        if best == before || evals >= budget {
            break;
        }
    }
    best
}

/// Isolated stages run in a child process that records the tape each worker is about to
/// evaluate in `$VERIF_CURRENT_DIR/cur-<worker>.bin` (one positioned write per case into a file
/// kept open: u32 length + u16 values, little endian): if the child dies (stack overflow,
/// abort) the parent knows which cases were running.
struct CurrentFile(Option<std::fs::File>);

impl CurrentFile {
    fn open(dir: &Option<std::path::PathBuf>, worker: usize) -> Self {
        CurrentFile(dir.as_ref().and_then(|d| std::fs::File::create(d.join(format!("cur-{worker}.bin"))).ok()))
    }
    fn record(&self, tape: &[u16]) {
        use std::os::unix::fs::FileExt;
        if let Some(f) = &self.0 {
            let mut buf = Vec::with_capacity(4 + 2 * tape.len());
            buf.extend_from_slice(&(tape.len() as u32).to_le_bytes());
            for v in tape {
                buf.extend_from_slice(&v.to_le_bytes());
            }
            let _ = f.write_all_at(&buf, 0);
        }
    }
}

/// The tapes recorded by the workers of a child that died.
pub fn read_current_tapes(dir: &std::path::Path) -> Vec<Vec<u16>> {
    let mut files: Vec<_> = std::fs::read_dir(dir).map(|rd| rd.filter_map(|e| e.ok()).map(|e| e.path()).collect()).unwrap_or_default();
    files.sort();
    let mut out = vec![];
    for f in files {
        let Ok(b) = std::fs::read(&f) else { continue };
        if b.len() < 4 {
            continue;
        }
        let n = u32::from_le_bytes([b[0], b[1], b[2], b[3]]) as usize;
        if b.len() < 4 + 2 * n {
            continue;
        }
        out.push((0..n).map(|i| u16::from_le_bytes([b[4 + 2 * i], b[5 + 2 * i]])).collect());
    }
    out
}

pub struct RunOpts {
    pub seed: u64,
    pub cases: u64,
    pub workers: usize,
    pub hang_secs: u64,
}

/// Runs `cases` generated cases of `prop` over `workers` threads. Stops at the first
/// unknown violation (after shrinking it).
pub fn run_property(prop: &dyn Property, opts: &RunOpts, golden: &[Vec<u16>]) -> Stats {
    crate::run::install_panic_hook();
    let known = load_known();
    let start = Instant::now();
    let workers = opts.workers.max(1);
    let watch = Arc::new(Watch {
        slots: (0..workers).map(|_| Mutex::new(None)).collect(),
        stop: AtomicBool::new(false),
    });
    let found = AtomicBool::new(false);
    let total = Mutex::new(Stats::default());
    let per_worker = opts.cases / workers as u64;
    let extra = opts.cases % workers as u64;
    let current_dir: Option<std::path::PathBuf> = std::env::var_os("VERIF_CURRENT_DIR").map(std::path::PathBuf::from);
    let current_dir = &current_dir;

    std::thread::scope(|scope| {
        // watchdog
        let w2 = watch.clone();
        let id = prop.id();
        let stage = prop.stage();
        let hang_secs = opts.hang_secs.max(prop.hang_secs());
        scope.spawn(move || {
            let mut stalls = 0u32;
            while !w2.stop.load(Ordering::SeqCst) {
                std::thread::sleep(Duration::from_millis(250));
                for slot in &w2.slots {
                    // (the slot is not kept locked while the case is re-run below: the worker
                    // must be able to finish and clear it)
                    let overdue: Option<Vec<u16>> = {
                        let g = slot.lock().unwrap();
                        match &*g {
                            Some((t0, tape)) if t0.elapsed() > Duration::from_secs(hang_secs) => Some(tape.clone()),
                            _ => None,
                        }
                    };
                    let Some(tape) = overdue else { continue };
                    let dir = verif_root().join("replays");
                    let _ = std::fs::create_dir_all(&dir);
                    let path = dir.join(format!("{id}-hang-{:016x}.json", hash_of(&tape)));
                    let rec = json!({"property": id, "stage": stage, "signature": "hang", "tape": tape, "profile": profile_name()});
                    let _ = std::fs::write(&path, serde_json::to_string_pretty(&rec).unwrap());
                    // confirm in a fresh process with a generous limit; only a confirmed
                    // repeat counts, and only for properties that promise termination
                    let me = std::env::current_exe().expect("current_exe");
                    let st = std::process::Command::new("timeout")
                        .args(["-k", "5", &(3 * hang_secs).max(180).to_string()])
                        .arg(&me)
                        .args(["replay", path.to_str().unwrap()])
                        .stdout(std::process::Stdio::null())
                        .stderr(std::process::Stdio::null())
                        .status();
                    let confirmed = matches!(st.as_ref().map(|s| s.code()), Ok(Some(124)) | Ok(Some(137)));
                    if confirmed {
                        println!("HANG property={id} stage={stage} replay={} (case exceeded {hang_secs}s, also when replayed alone)", path.display());
                        if matches!(id, "C04" | "C10" | "C13") {
                            println!("--- the case does not terminate within three times the hang threshold when replayed alone (typical case: < 1 ms)");
                            println!("VIOLATION property={id} replay={}", path.display());
                            std::process::exit(1);
                        }
                        println!("INCONCLUSIVE property={id}: a case exceeded the watchdog (confirmed alone: true)");
                        std::process::exit(2);
                    }
                    // Replayed alone the case finishes: the machine stalled (overload, memory
                    // pressure), not the case. Give it more time; only repeated stalls end the
                    // run, as inconclusive.
                    let _ = std::fs::remove_file(&path);
                    stalls += 1;
                    eprintln!("note: a case of {id}/{stage} took more than {hang_secs}s here but finishes at once when replayed alone (stall #{stalls}); waiting on");
                    if stalls > 8 {
                        println!("INCONCLUSIVE property={id}: cases keep exceeding the watchdog on this machine although they finish at once when replayed alone");
                        std::process::exit(2);
                    }
                    let mut g = slot.lock().unwrap();
                    if let Some((t0, cur)) = g.as_mut() {
                        if *cur == tape {
                            *t0 = Instant::now();
                        }
                    }
                }
            }
        });
        let mut handles = vec![];
        for w in 0..workers {
            let n = per_worker + if (w as u64) < extra { 1 } else { 0 };
            let known = &known;
            let found = &found;
            let total = &total;
            let watch = watch.clone();
            handles.push(scope.spawn(move || {
                let mut stats = Stats::default();
                let current = CurrentFile::open(current_dir, w);
                let mut seen_nt: HashSet<u64> = HashSet::new();
                let rng = rng_for(opts.seed, w as u64, prop.stage());
                let mut runner = TestRunner::new_with_rng(
                    Config {
                        failure_persistence: None,
                        ..Config::default()
                    },
                    rng,
                );
                let strat = proptest::collection::vec(proptest::num::u16::ANY, prop.max_tape() / 3..=prop.max_tape());
                let goldens: Vec<Vec<u16>> = if w == 0 { golden.to_vec() } else { vec![] };
                let mut gi = 0usize;
                let mut i = 0u64;
                while i < n || gi < goldens.len() {
                    if found.load(Ordering::SeqCst) {
                        break;
                    }
                    let (tape, tree) = if gi < goldens.len() {
                        gi += 1;
                        (goldens[gi - 1].clone(), None)
                    } else {
                        i += 1;
                        let tree = strat.new_tree(&mut runner).expect("tape strategy");
                        (tree.current(), Some(tree))
                    };
                    *watch.slots[w].lock().unwrap() = Some((Instant::now(), tape.clone()));
                    current.record(&tape);
                    let rep = prop.eval(&tape);
                    *watch.slots[w].lock().unwrap() = None;
                    stats.cases += 1;
                    stats.evaluations += rep.evaluations;
                    for l in &rep.labels {
                        *stats.labels.entry(l.to_string()).or_default() += 1;
                    }
                    if let Some(s) = rep.skipped {
                        *stats.skipped.entry(s.to_string()).or_default() += 1;
                    }
                    if rep.nontrivial && seen_nt.insert(rep.case_hash) {
                        stats.nontrivial_hashes.push(rep.case_hash);
                        if stats.samples.len() < 2 {
                            stats.samples.push(prop.describe(&tape));
                        }
                    }
                    if let Some(f) = rep.failure {
                        if let Some(k) = match_known(known, prop.id(), &f.signature) {
                            *stats.known.entry(k.id.clone()).or_default() += 1;
                            continue;
                        }
                        // unknown violation: shrink (same signature only)
                        if found.swap(true, Ordering::SeqCst) {
                            break;
                        }
                        let sig = f.signature.clone();
                        let slot = &watch.slots[w];
                        // all shrinking of one violation is given five minutes: after that every
                        // further candidate counts as "does not fail" without being evaluated, so
                        // the shrinkers keep what they have (replay size only, never the verdict)
                        let shrink_deadline = Instant::now() + std::time::Duration::from_secs(300);
                        let fails = |t: &[u16]| -> bool {
                            if Instant::now() > shrink_deadline {
                                return false;
                            }
                            *slot.lock().unwrap() = Some((Instant::now(), t.to_vec()));
                            current.record(t);
                            let r = prop
                                .eval(t)
                                .failure
                                .map(|x| x.signature == sig)
                                .unwrap_or(false);
                            *slot.lock().unwrap() = None;
                            r
                        };
                        // slow cases (huge universes) get a smaller shrinking budget: about 90 s
                        // per shrinking stage; this affects how small the replay file gets, never
                        // whether the violation is reported
                        let t_eval = {
                            let t0 = Instant::now();
                            let _ = fails(&tape);
                            t0.elapsed().as_secs_f64().max(1e-6)
                        };
                        let timed = ((90.0 / t_eval) as usize).max(10);
                        let budget = prop.shrink_budget().min(timed);
                        let min = match tree {
                            Some(tree) => shrink(tree, tape.clone(), &fails, budget),
                            None => tape_passes(tape.clone(), &fails, budget),
                        };
                        // structural minimisation of the decoded case
                        let case = prop.decode_struct(&min).map(|sc| {
                            let sfails = |c: &StructCase| -> bool {
                                if Instant::now() > shrink_deadline + std::time::Duration::from_secs(120) {
                                    return false;
                                }
                                *slot.lock().unwrap() = Some((Instant::now(), min.clone()));
                                let r = prop
                                    .eval_struct(c)
                                    .failure
                                    .map(|x| x.signature == sig)
                                    .unwrap_or(false);
                                *slot.lock().unwrap() = None;
                                r
                            };
                            if sfails(&sc) {
                                minimize(sc, &sfails, 5000.min(timed))
                            } else {
                                sc
                            }
                        });
                        let (ff, description) = match &case {
                            Some(sc) => (
                                prop.eval_struct(sc).failure.unwrap_or(f),
                                prop.describe_struct(sc),
                            ),
                            None => (prop.eval(&min).failure.unwrap_or(f), prop.describe(&min)),
                        };
                        stats.violations.push(ViolationRecord {
                            property: prop.id().to_string(),
                            stage: prop.stage().to_string(),
                            signature: ff.signature,
                            detail: ff.detail,
                            description,
                            tape: min,
                            case,
                            profile: profile_name().to_string(),
                        });
                        break;
                    }
                }
                total.lock().unwrap().merge(stats);
            }));
        }
        for h in handles {
            let _ = h.join();
        }
        watch.stop.store(true, Ordering::SeqCst);
    });
    let mut s = total.into_inner().unwrap();
    s.wall_s = start.elapsed().as_secs_f64();
    s
}

/// Write a replay file for a violation; returns its path.
pub fn write_replay(v: &ViolationRecord) -> std::path::PathBuf {
    let dir = verif_root().join("replays");
    let _ = std::fs::create_dir_all(&dir);
    let path = dir.join(format!(
        "{}-{:016x}.json",
        v.property,
        hash_of(&(&v.signature, &v.tape, &v.stage))
    ));
    let _ = std::fs::write(&path, serde_json::to_string_pretty(v).unwrap());
    path
}

pub struct EvidenceMeta<'a> {
    pub property: &'a str,
    pub tier: Tier,
    pub seed: u64,
    pub level: &'a str,
    pub rule: String,
    pub assumptions: Vec<String>,
    pub extra: Value,
}

pub fn write_evidence(meta: &EvidenceMeta, stats: &Stats, wall_s: f64) {
    // tools that run checks against deliberately broken trees redirect the evidence
    let dir = std::env::var_os("VERIF_EVIDENCE_DIR")
        .map(std::path::PathBuf::from)
        .unwrap_or_else(|| verif_root().join("evidence"));
    let _ = std::fs::create_dir_all(&dir);
    let samples: Vec<Value> = stats.samples.iter().map(|s| json!(s)).collect();
    let ev = json!({
        "property_id": meta.property,
        "tier": meta.tier.name(),
        "seed": meta.seed,
        "level": meta.level,
        "coverage": {
            "evaluations": stats.evaluations,
            "cases_generated": stats.cases,
            "distinct_nontrivial": stats.distinct_nontrivial(),
            "rule": meta.rule,
            "samples": samples,
            "labels": stats.labels,
            "skipped": stats.skipped,
            "known_findings_suppressed": stats.known,
            "extra": meta.extra,
        },
        "assumptions": meta.assumptions,
        "wall_s": wall_s,
        "violations": stats.violations.len(),
    });
    let path = dir.join(format!("{}.json", meta.property));
    std::fs::write(&path, serde_json::to_string_pretty(&ev).unwrap()).expect("write evidence");
}

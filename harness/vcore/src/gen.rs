//! Tape-driven generators for universes and problems. Every tape decodes to a
//! well-formed case (construction, never rejection).

use crate::model::*;
use crate::tape::Tape;

#[derive(Clone, Debug, serde::Serialize, serde::Deserialize)]
#[serde(default)]
pub struct Params {
    pub min_pkgs: usize,
    pub max_pkgs: usize,
    pub max_cands: usize,
    pub max_reqs: usize,
    pub max_constrains: usize,
    /// probabilities in 1/1000
    pub p_missing: u32,
    /// package exists but lists no candidates
    pub p_empty_pkg: u32,
    pub p_unknown: u32,
    pub p_excluded: u32,
    pub p_locked: u32,
    pub p_favored: u32,
    pub p_union: u32,
    /// probability that a requirement/constrains targets the solvable's own package
    pub p_self_ref: u32,
    /// probability that a requirement targets a later package (acyclic bias)
    pub p_forward: u32,
    /// weights for hint None / All / Some
    pub hint_w: [u32; 3],
    /// weights for version set shapes: all, single, range, subset, empty
    pub vs_w: [u32; 5],
    /// the same for version sets used in constrains / root constraints
    pub cons_vs_w: [u32; 5],
    /// reuse an existing version set of the package
    pub p_vs_reuse: u32,
    /// id layout weights: dense, dense shuffled, sparse shuffled
    pub id_w: [u32; 3],
    pub max_id_gap: usize,
    pub min_root_reqs: usize,
    pub max_root_reqs: usize,
    pub max_root_constraints: usize,
    pub max_soft: usize,
    /// probability that a package gets unlisted solvables (soft-only)
    pub p_unlisted: u32,
    pub p_root_union: u32,
    /// random sort_rank permutation (else identity = listing order)
    pub p_perm_rank: u32,
    /// when > 0: the last package gets a log-uniformly distributed number of candidates up to this
    /// (hundreds to thousands: thresholds that ordinary universes never reach)
    pub big_pkg: usize,
    /// reads past the end of the tape continue pseudo-randomly (seeded from the tape) instead of
    /// with zeros: for stages whose cases need thousands of choices
    pub tail_random: bool,
    /// probability (1/1000, per id space) that one or two ids are moved far up: solvable ids
    /// up to 2^26, the others up to 2^19 (resolvo sizes a bit vector / a vector by them)
    pub far_ids: u32,
    /// probability (1/1000) that a union requirement gets 31..42 members instead of 2..3
    /// (more than the 30 up to which `futures::try_join_all` keeps its simple strategy);
    /// no tape value is read when this is 0, so older tapes keep their meaning
    pub p_big_union: u32,
    /// probability (1/1000, only consulted when `p_big_union` > 0) that a union gets 901..1100
    /// members (beyond 30 x 30, where a two-level join of groups of 30 stops being flat)
    pub p_giant_union: u32,
    /// one lock in eight points at a solvable the provider no longer lists (`Package::lock_gone`)
    pub lock_gone: bool,
}

impl Default for Params {
    fn default() -> Self {
        Params {
            min_pkgs: 1,
            max_pkgs: 8,
            max_cands: 5,
            max_reqs: 3,
            max_constrains: 2,
            p_missing: 40,
            p_empty_pkg: 40,
            p_unknown: 50,
            p_excluded: 60,
            p_locked: 80,
            p_favored: 250,
            p_union: 150,
            p_self_ref: 30,
            p_forward: 700,
            hint_w: [5, 2, 3],
            vs_w: [3, 3, 3, 3, 1],
            cons_vs_w: [1, 3, 3, 3, 1],
            p_vs_reuse: 300,
            id_w: [2, 1, 3],
            max_id_gap: 40,
            min_root_reqs: 0,
            max_root_reqs: 4,
            max_root_constraints: 2,
            max_soft: 0,
            p_unlisted: 0,
            p_root_union: 150,
            p_perm_rank: 600,
            big_pkg: 0,
            tail_random: false,
            far_ids: 0,
            p_big_union: 0,
            p_giant_union: 0,
            lock_gone: true,
        }
    }
}

impl Params {
    /// Phase-transition shaped: tight single/range version sets, many constrains,
    /// few escape hatches, so ~half the cases are unsat and conflicts are deep.
    pub fn conflict_heavy() -> Self {
        Params {
            min_pkgs: 6,
            max_pkgs: 12,
            max_cands: 6,
            max_reqs: 3,
            max_constrains: 2,
            p_missing: 5,
            p_empty_pkg: 5,
            p_unknown: 10,
            p_excluded: 20,
            p_locked: 10,
            p_favored: 250,
            p_union: 60,
            p_self_ref: 5,
            p_forward: 950,
            vs_w: [5, 1, 4, 2, 0],
            cons_vs_w: [0, 2, 4, 4, 0],
            min_root_reqs: 2,
            max_root_reqs: 5,
            max_root_constraints: 2,
            ..Params::default()
        }
    }

    /// Conflict-heavy with many single-literal facts that are discovered lazily (exclusions,
    /// Unknown dependencies, requirements without candidates, self-excluding constrains).
    pub fn assertion_heavy() -> Self {
        Params {
            p_excluded: 150,
            p_unknown: 80,
            p_missing: 40,
            p_empty_pkg: 30,
            p_self_ref: 40,
            vs_w: [5, 1, 4, 2, 1],
            ..Params::conflict_heavy()
        }
    }

    /// Long refutations: more packages and candidates, overlapping subset / range version sets,
    /// many constrains, eager encoding through hints, so that an unsatisfiable verdict is
    /// reached after many learnt clauses that are themselves derived from learnt clauses.
    pub fn deep_conflict() -> Self {
        Params {
            min_pkgs: 7,
            max_pkgs: 12,
            max_cands: 8,
            max_reqs: 5,
            max_constrains: 5,
            p_union: 100,
            p_excluded: 10,
            p_unknown: 5,
            p_missing: 0,
            p_empty_pkg: 0,
            p_locked: 0,
            hint_w: [5, 2, 3],
            vs_w: [2, 1, 4, 5, 0],
            cons_vs_w: [0, 1, 4, 5, 0],
            p_forward: 850,
            min_root_reqs: 1,
            max_root_reqs: 2,
            max_root_constraints: 1,
            tail_random: true,
            ..Params::conflict_heavy()
        }
    }

    /// Wide fan-out (C11): many requirements on distinct packages.
    pub fn fanout() -> Self {
        Params {
            min_pkgs: 4,
            max_pkgs: 12,
            max_cands: 3,
            max_reqs: 6,
            max_constrains: 3,
            p_union: 200,
            p_root_union: 200,
            min_root_reqs: 1,
            max_root_reqs: 8,
            max_root_constraints: 3,
            p_forward: 800,
            vs_w: [5, 1, 3, 2, 0],
            ..Params::default()
        }
    }

    /// Small unsatisfiable universes in which most dependency edges point backwards: the
    /// conflicts contain dependency cycles, also cycles through candidates that have an
    /// installable alternative.
    pub fn cyclic() -> Self {
        Params {
            min_pkgs: 3,
            max_pkgs: 7,
            max_cands: 3,
            max_reqs: 2,
            p_forward: 350,
            p_self_ref: 20,
            p_union: 40,
            vs_w: [6, 2, 3, 2, 0],
            min_root_reqs: 1,
            max_root_reqs: 3,
            ..Params::conflict_heavy()
        }
    }

    /// One package with up to several thousand candidates next to a handful of ordinary
    /// ones; the other knobs are kept small so that the tape is spent on that package.
    pub fn huge_package(max: usize) -> Self {
        Params {
            min_pkgs: 2,
            max_pkgs: 5,
            max_cands: 3,
            max_reqs: 2,
            max_constrains: 1,
            p_union: 80,
            p_unknown: 250,
            min_root_reqs: 1,
            max_root_reqs: 3,
            big_pkg: max,
            ..Params::default()
        }
    }

    /// Hundreds of packages with one or two candidates each and a root that requires most of
    /// them: more than 128 requests in flight at once, more than 256 solvables and ids on
    /// both sides of every chunk boundary of the solver's tables.
    pub fn wide() -> Self {
        Params {
            min_pkgs: 130,
            max_pkgs: 220,
            max_cands: 2,
            max_reqs: 2,
            max_constrains: 1,
            p_union: 100,
            p_root_union: 60,
            min_root_reqs: 300,
            max_root_reqs: 420,
            max_root_constraints: 3,
            p_forward: 800,
            vs_w: [6, 1, 2, 1, 0],
            max_soft: 0,
            tail_random: true,
            ..Params::default()
        }
    }

    /// A root with thousands of requirements (distinct version sets over about a hundred
    /// packages): one propagation round visits thousands of clauses.
    pub fn wide_root() -> Self {
        Params {
            min_root_reqs: 2100,
            max_root_reqs: 4400,
            min_pkgs: 60,
            max_pkgs: 120,
            max_cands: 4,
            max_reqs: 1,
            p_vs_reuse: 50,
            p_root_union: 30,
            ..Params::wide()
        }
    }

    /// development aid: VERIF_PARAMS='{"max_cands":6,...}' overrides fields
    pub fn env_override(self) -> Self {
        match std::env::var("VERIF_PARAMS") {
            Ok(js) => {
                let mut v = serde_json::to_value(&self).unwrap();
                let o: serde_json::Value = serde_json::from_str(&js).expect("VERIF_PARAMS json");
                for (k, val) in o.as_object().unwrap() {
                    v[k] = val.clone();
                }
                serde_json::from_value(v).expect("VERIF_PARAMS fields")
            }
            Err(_) => self,
        }
    }

    pub fn with_soft(mut self, max_soft: usize, p_unlisted: u32) -> Self {
        self.max_soft = max_soft;
        self.p_unlisted = p_unlisted;
        self
    }

    pub fn with_giant_unions(mut self, per_mille: u32) -> Self {
        self.p_giant_union = per_mille;
        self.tail_random = true;
        self
    }

    pub fn with_big_unions(mut self, per_mille: u32) -> Self {
        self.p_big_union = per_mille;
        self
    }

    pub fn with_far_ids(mut self, per_mille: u32) -> Self {
        self.far_ids = per_mille;
        self
    }

    pub fn no_hints(mut self) -> Self {
        self.hint_w = [1, 0, 0];
        self
    }

    pub fn hint_heavy(mut self) -> Self {
        self.hint_w = [1, 3, 4];
        self
    }
}

fn assign_ids(t: &mut Tape, n: usize, w: &[u32; 3], max_gap: usize) -> Vec<u32> {
    let mode = t.weighted(w);
    match mode {
        0 => (0..n as u32).collect(),
        1 => {
            let p = t.permutation(n);
            p.into_iter().map(|x| x as u32).collect()
        }
        _ => {
            let mut ids = Vec::with_capacity(n);
            let mut cur = t.below(max_gap + 1) as u32;
            for _ in 0..n {
                ids.push(cur);
                cur += 1 + t.below(max_gap + 1) as u32;
            }
            let p = t.permutation(n);
            p.into_iter().map(|i| ids[i]).collect()
        }
    }
}

/// log-uniform in [2, max]: 2^e + below(2^e)
fn big_count(t: &mut Tape, max: usize) -> usize {
    let bits = (usize::BITS - max.leading_zeros()) as usize;
    let e = 1 + t.below(bits.max(2) - 1);
    ((1usize << e) + t.below(1 << e)).min(max)
}

struct Builder<'p> {
    u: Universe,
    p: &'p Params,
}

impl Builder<'_> {
    fn new_vs(&mut self, t: &mut Tape, pkg: usize, cons: bool) -> usize {
        let w = if cons { self.p.cons_vs_w } else { self.p.vs_w };
        // reuse?
        let existing: Vec<usize> = self
            .u
            .vsets
            .iter()
            .enumerate()
            .filter(|(_, v)| v.pkg == pkg)
            .map(|(i, _)| i)
            .collect();
        if !existing.is_empty() && t.chance(self.p.p_vs_reuse, 1000) {
            return existing[t.below(existing.len())];
        }
        let n = self.u.packages[pkg].cands.len();
        let matches: Vec<usize> = if n == 0 {
            t.next();
            vec![]
        } else {
            match t.weighted(&w) {
                0 => (0..n).collect(),
                1 => vec![t.below(n)],
                2 => {
                    let a = t.below(n);
                    let b = a + t.below(n - a);
                    (a..=b).collect()
                }
                3 => {
                    let mut m = vec![];
                    for i in 0..n {
                        if t.chance(1, 2) {
                            m.push(i);
                        }
                    }
                    m
                }
                _ => vec![],
            }
        };
        self.u.vsets.push(VSet {
            id: 0,
            pkg,
            matches,
        });
        self.u.vsets.len() - 1
    }

    fn pick_target_pkg(&mut self, t: &mut Tape, from: Option<usize>) -> usize {
        let np = self.u.packages.len();
        if let Some(f) = from {
            if t.chance(self.p.p_self_ref, 1000) {
                return f;
            }
            if f + 1 < np && t.chance(self.p.p_forward, 1000) {
                return f + 1 + t.below(np - f - 1);
            }
        }
        t.below(np)
    }

    fn new_req(&mut self, t: &mut Tape, from: Option<usize>, p_union: u32) -> Req {
        if t.chance(p_union, 1000) {
            let k = if self.p.p_giant_union > 0 && t.chance(self.p.p_giant_union, 1000) {
                901 + t.below(200)
            } else if self.p.p_big_union > 0 && t.chance(self.p.p_big_union, 1000) {
                31 + t.below(12)
            } else {
                2 + t.below(2)
            };
            let mut members = vec![];
            for _ in 0..k {
                let pkg = self.pick_target_pkg(t, from);
                members.push(self.new_vs(t, pkg, false));
            }
            self.u.unions.push(Union { id: 0, members });
            Req::Union(self.u.unions.len() - 1)
        } else {
            let pkg = self.pick_target_pkg(t, from);
            Req::Single(self.new_vs(t, pkg, false))
        }
    }

    fn new_deps(&mut self, t: &mut Tape, from: usize) -> Deps {
        if t.chance(self.p.p_unknown, 1000) {
            return Deps::Unknown(t.below(self.u.strings.len()));
        }
        let nr = t.below(self.p.max_reqs + 1);
        let mut reqs = vec![];
        for _ in 0..nr {
            reqs.push(self.new_req(t, Some(from), self.p.p_union));
        }
        let nc = t.below(self.p.max_constrains + 1);
        let mut constrains = vec![];
        for _ in 0..nc {
            let pkg = self.pick_target_pkg(t, Some(from));
            constrains.push(self.new_vs(t, pkg, true));
        }
        Deps::Known { reqs, constrains }
    }
}

pub fn gen_universe(t: &mut Tape, p: &Params) -> Universe {
    let mut b = Builder {
        u: Universe::default(),
        p,
    };
    for i in 0..4 {
        b.u.strings.push(Str {
            id: 0,
            text: format!("reason{i}"),
        });
    }
    if p.big_pkg > 0 || p.tail_random {
        let seed = t.next();
        t.enable_tail(seed);
    }
    let np = t.range(p.min_pkgs.max(1), p.max_pkgs.max(p.min_pkgs).max(1));
    // package skeletons first (so that requirements can reference any package)
    for pi in 0..np {
        let missing = t.chance(p.p_missing, 1000);
        let nc = if missing {
            0
        } else if t.chance(p.p_empty_pkg, 1000) {
            0
        } else if pi + 1 == np && p.big_pkg > 0 {
            big_count(t, p.big_pkg)
        } else {
            1 + t.below(p.max_cands.max(1))
        };
        let cands = (0..nc)
            .map(|ci| Cand {
                sid: 0,
                version: ci as u32 + 1,
                deps: Deps::empty(),
                excluded: None,
            })
            .collect::<Vec<_>>();
        let n_unlisted = if t.chance(p.p_unlisted, 1000) {
            1 + t.below(2)
        } else {
            0
        };
        let unlisted = (0..n_unlisted)
            .map(|ci| Cand {
                sid: 0,
                version: 100 + ci as u32,
                deps: Deps::empty(),
                excluded: None,
            })
            .collect::<Vec<_>>();
        let sort_rank = if t.chance(p.p_perm_rank, 1000) {
            t.permutation(nc)
        } else {
            (0..nc).collect()
        };
        b.u.packages.push(Package {
            name_id: 0,
            name: pkg_name(pi),
            missing,
            cands,
            sort_rank,
            favored: None,
            locked: None,
            lock_gone: false,
            hint_unlisted: false,
            hint: Hint::None,
            unlisted,
        });
    }
    // per-package attributes and dependencies
    for pi in 0..np {
        let nc = b.u.packages[pi].cands.len();
        if nc > 0 {
            if t.chance(p.p_favored, 1000) {
                b.u.packages[pi].favored = Some(t.below(nc));
            }
            if t.chance(p.p_locked, 1000) {
                // the low bits of the value are (nearly) independent of the chosen index
                let v = t.next() as usize;
                if p.lock_gone && v % 8 == 5 {
                    b.u.packages[pi].lock_gone = true;
                } else {
                    b.u.packages[pi].locked = Some((v * nc) >> 16);
                }
            }
            b.u.packages[pi].hint = match t.weighted(&p.hint_w) {
                0 => Hint::None,
                1 => Hint::All,
                _ => {
                    let mut v = vec![];
                    for i in 0..nc {
                        if t.chance(1, 2) {
                            v.push(i);
                        }
                    }
                    Hint::Some(v)
                }
            };
        }
        for ci in 0..nc {
            if t.chance(p.p_excluded, 1000) {
                b.u.packages[pi].cands[ci].excluded = Some(t.below(b.u.strings.len()));
            }
            let deps = b.new_deps(t, pi);
            b.u.packages[pi].cands[ci].deps = deps;
        }
        for ci in 0..b.u.packages[pi].unlisted.len() {
            let deps = b.new_deps(t, pi);
            b.u.packages[pi].unlisted[ci].deps = deps;
        }
        if b.u.packages[pi].lock_gone {
            // the version the lock names: known to the pool, not offered any more
            b.u.packages[pi].unlisted.push(Cand {
                sid: 0,
                version: 200,
                deps: Deps::empty(),
                excluded: None,
            });
        }
        // an unlisted solvable may be reported as excluded (derived from its dependencies: no
        // extra tape value)
        if p.lock_gone && !b.u.strings.is_empty() {
            let ns = b.u.strings.len();
            for ci in 0..b.u.packages[pi].unlisted.len() {
                let h = crate::runner::hash_of(&(&b.u.packages[pi].unlisted[ci].deps, pi, ci));
                if h % 3 == 0 {
                    b.u.packages[pi].unlisted[ci].excluded = Some((h as usize >> 8) % ns);
                }
            }
        }
        // a Some-hint may also name solvables the package does not list (derived from the hint
        // list itself: no extra tape value)
        if p.lock_gone && !b.u.packages[pi].unlisted.is_empty() {
            if let Hint::Some(v) = &b.u.packages[pi].hint {
                b.u.packages[pi].hint_unlisted = v.len() % 2 == 1;
            }
        }
    }
    b.u
}

pub fn pkg_name(i: usize) -> String {
    if i < 26 {
        ((b'a' + i as u8) as char).to_string()
    } else {
        format!("p{i}")
    }
}

/// Generates the problem; may add version sets / unions to the universe (root requirements
/// intern their own version sets, as real callers do).
pub fn gen_problem(t: &mut Tape, u: &mut Universe, p: &Params) -> Problem {
    let mut b = Builder {
        u: std::mem::take(u),
        p,
    };
    let nr = t.range(p.min_root_reqs, p.max_root_reqs.max(p.min_root_reqs));
    let mut reqs = vec![];
    for _ in 0..nr {
        reqs.push(b.new_req(t, None, p.p_root_union));
    }
    let nc = t.below(p.max_root_constraints + 1);
    let mut constraints = vec![];
    for _ in 0..nc {
        let pkg = b.pick_target_pkg(t, None);
        constraints.push(b.new_vs(t, pkg, true));
    }
    let mut soft = vec![];
    if p.max_soft > 0 {
        let all: Vec<SRef> = b
            .u
            .packages
            .iter()
            .enumerate()
            .flat_map(|(pi, pk)| {
                (0..pk.cands.len())
                    .map(move |idx| SRef {
                        pkg: pi,
                        idx,
                        listed: true,
                    })
                    .chain((0..pk.unlisted.len()).map(move |idx| SRef {
                        pkg: pi,
                        idx,
                        listed: false,
                    }))
            })
            .collect();
        if !all.is_empty() {
            let ns = t.below(p.max_soft + 1);
            for _ in 0..ns {
                soft.push(all[t.below(all.len())]);
            }
        }
    }
    *u = b.u;
    Problem {
        reqs,
        constraints,
        soft,
    }
}

/// Assign ids to all five id spaces (call after the problem has been generated, since
/// the problem may add version sets).
fn move_far(t: &mut Tape, ids: &mut [u32], p: &Params, max_shift: usize) {
    if p.far_ids == 0 || ids.is_empty() || !t.chance(p.far_ids, 1000) {
        return;
    }
    for _ in 0..1 + t.below(2) {
        let i = t.below(ids.len());
        let far = (1u32 << (14 + t.below(max_shift - 13))) + t.below(4096) as u32;
        let new = ids[i].wrapping_add(far);
        if !ids.contains(&new) {
            ids[i] = new;
        }
    }
}

pub fn gen_ids(t: &mut Tape, u: &mut Universe, p: &Params) {
    let ids = assign_ids(t, u.packages.len(), &p.id_w, p.max_id_gap);
    let mut ids = ids;
    move_far(t, &mut ids, p, 19);
    for (pk, id) in u.packages.iter_mut().zip(ids) {
        pk.name_id = id;
    }
    let ns = u.n_solvables();
    let mut ids = assign_ids(t, ns, &p.id_w, p.max_id_gap / 3);
    move_far(t, &mut ids, p, 26);
    let mut it = ids.into_iter();
    for pk in u.packages.iter_mut() {
        for c in pk.cands.iter_mut().chain(pk.unlisted.iter_mut()) {
            c.sid = it.next().unwrap();
        }
    }
    let mut ids = assign_ids(t, u.vsets.len(), &p.id_w, p.max_id_gap / 3);
    move_far(t, &mut ids, p, 19);
    for (v, id) in u.vsets.iter_mut().zip(ids) {
        v.id = id;
    }
    let ids = assign_ids(t, u.unions.len(), &p.id_w, p.max_id_gap);
    for (v, id) in u.unions.iter_mut().zip(ids) {
        v.id = id;
    }
    let ids = assign_ids(t, u.strings.len(), &p.id_w, p.max_id_gap);
    for (v, id) in u.strings.iter_mut().zip(ids) {
        v.id = id;
    }
    // The id spaces are independent: a version set and a union may carry the same number, also
    // modulo the high bit (ids are plain u32; nothing in the solver allocates by these two).
    if p.far_ids > 0 && !u.unions.is_empty() && !u.vsets.is_empty() && t.chance(p.far_ids, 2000) {
        let un = u.unions[t.below(u.unions.len())].id;
        let vi = t.below(u.vsets.len());
        let new = if t.chance(1, 2) { 0x8000_0000 | un } else { un };
        if !u.vsets.iter().any(|v| v.id == new) {
            u.vsets[vi].id = new;
        }
    }
}

/// The standard "full case": universe + problem + ids.
pub fn gen_case(t: &mut Tape, p: &Params) -> (Universe, Problem) {
    let mut u = gen_universe(t, p);
    let problem = gen_problem(t, &mut u, p);
    gen_ids(t, &mut u, p);
    (u, problem)
}

// ------------------------------------------------------------------ conflict-free construction

/// C07 / C09: universes that are conflict-free *by construction*: every package has a
/// target candidate; every requirement issued by the root or by a target ranks the target
/// of the required package first; constrains of targets admit the targets; locks name the
/// target; exclusions / Unknown only hit non-targets. All non-target candidates carry
/// unconstrained random dependencies (noise that must neither be selected nor fetched).
pub fn gen_conflict_free(t: &mut Tape, p: &Params, with_hints: bool) -> (Universe, Problem) {
    let mut b = Builder {
        u: Universe::default(),
        p,
    };
    for i in 0..4 {
        b.u.strings.push(Str {
            id: 0,
            text: format!("reason{i}"),
        });
    }
    if p.big_pkg > 0 || p.tail_random {
        let seed = t.next();
        t.enable_tail(seed);
    }
    let np = t.range(p.min_pkgs.max(2), p.max_pkgs.max(2));
    let mut target: Vec<usize> = vec![];
    for pi in 0..np {
        let nc = if pi + 1 == np && p.big_pkg > 0 {
            big_count(t, p.big_pkg)
        } else {
            1 + t.below(p.max_cands.max(1))
        };
        let cands = (0..nc)
            .map(|ci| Cand {
                sid: 0,
                version: ci as u32 + 1,
                deps: Deps::empty(),
                excluded: None,
            })
            .collect::<Vec<_>>();
        let sort_rank = if t.chance(p.p_perm_rank, 1000) {
            t.permutation(nc)
        } else {
            (0..nc).collect()
        };
        let tgt = t.below(nc);
        let favored = if t.chance(1, 2) { Some(tgt) } else { None };
        let locked = if t.chance(p.p_locked, 1000) { Some(tgt) } else { None };
        let hint = if !with_hints {
            Hint::None
        } else {
            match t.weighted(&p.hint_w) {
                0 => Hint::None,
                1 => Hint::All,
                _ => {
                    let mut v = vec![];
                    for i in 0..nc {
                        if t.chance(1, 2) {
                            v.push(i);
                        }
                    }
                    Hint::Some(v)
                }
            }
        };
        target.push(tgt);
        b.u.packages.push(Package {
            name_id: 0,
            name: pkg_name(pi),
            missing: false,
            cands,
            sort_rank,
            favored,
            locked,
            lock_gone: false,
            hint_unlisted: false,
            hint,
            unlisted: vec![],
        });
    }
    // a version set on `q` whose first-ranked member is the target of q
    fn target_first_vs(b: &mut Builder, t: &mut Tape, q: usize, tgt: usize) -> usize {
        let pk = &b.u.packages[q];
        let pos = pk.sort_rank.iter().position(|&c| c == tgt).unwrap();
        let favored = pk.favored == Some(tgt);
        let mut matches = vec![tgt];
        // a favored target leaves room for "any version" sets, and several distinct ones
        let match_all = favored && t.chance(1, 3);
        for (rank_pos, &c) in pk.sort_rank.iter().enumerate() {
            if c == tgt {
                continue;
            }
            // candidates ranked before the target may only be included if the target is favored
            let allowed = favored || rank_pos > pos;
            if allowed && (match_all || t.chance(1, 2)) {
                matches.push(c);
            }
        }
        matches.sort_unstable();
        b.u.vsets.push(VSet {
            id: 0,
            pkg: q,
            matches,
        });
        b.u.vsets.len() - 1
    }
    // a version set on `q` that does NOT contain the target (may be empty)
    fn non_target_vs(b: &mut Builder, t: &mut Tape, q: usize, tgt: usize) -> usize {
        let n = b.u.packages[q].cands.len();
        let mut matches = vec![];
        for c in 0..n {
            if c != tgt && t.chance(1, 2) {
                matches.push(c);
            }
        }
        b.u.vsets.push(VSet {
            id: 0,
            pkg: q,
            matches,
        });
        b.u.vsets.len() - 1
    }
    // a superset-of-target version set (for constrains)
    fn target_containing_vs(b: &mut Builder, t: &mut Tape, q: usize, tgt: usize) -> usize {
        let n = b.u.packages[q].cands.len();
        let mut matches = vec![];
        for c in 0..n {
            if c == tgt || t.chance(1, 2) {
                matches.push(c);
            }
        }
        b.u.vsets.push(VSet {
            id: 0,
            pkg: q,
            matches,
        });
        b.u.vsets.len() - 1
    }
    let good_req = |b: &mut Builder, t: &mut Tape, from: Option<usize>, target: &Vec<usize>| -> Req {
        let np = b.u.packages.len();
        let q = b.pick_target_pkg(t, from);
        let p_union = if from.is_none() { b.p.p_root_union } else { b.p.p_union };
        if t.chance(p_union, 1000) {
            let first = target_first_vs(b, t, q, target[q]);
            let mut members = vec![first];
            let k = if b.p.p_big_union > 0 && t.chance(b.p.p_big_union, 1000) { 30 + t.below(12) } else { 1 + t.below(2) };
            for _ in 0..k {
                let q2 = t.below(np);
                members.push(non_target_vs(b, t, q2, target[q2]));
            }
            b.u.unions.push(Union { id: 0, members });
            Req::Union(b.u.unions.len() - 1)
        } else {
            Req::Single(target_first_vs(b, t, q, target[q]))
        }
    };
    for pi in 0..np {
        let nc = b.u.packages[pi].cands.len();
        for ci in 0..nc {
            if ci == target[pi] {
                let nr = t.below(p.max_reqs + 1);
                let mut reqs = vec![];
                for _ in 0..nr {
                    reqs.push(good_req(&mut b, t, Some(pi), &target));
                }
                let nk = t.below(p.max_constrains + 1);
                let mut constrains = vec![];
                for _ in 0..nk {
                    let q = t.below(np);
                    constrains.push(target_containing_vs(&mut b, t, q, target[q]));
                }
                b.u.packages[pi].cands[ci].deps = Deps::Known { reqs, constrains };
            } else {
                if t.chance(p.p_excluded.max(100), 1000) {
                    b.u.packages[pi].cands[ci].excluded = Some(t.below(b.u.strings.len()));
                }
                let deps = b.new_deps(t, pi);
                b.u.packages[pi].cands[ci].deps = deps;
            }
        }
    }
    let nr = t.range(p.min_root_reqs.max(1), p.max_root_reqs.max(p.min_root_reqs).max(1));
    let mut reqs = vec![];
    for _ in 0..nr {
        reqs.push(good_req(&mut b, t, None, &target));
    }
    let nk = t.below(p.max_root_constraints + 1);
    let mut constraints = vec![];
    for _ in 0..nk {
        let q = t.below(np);
        constraints.push(target_containing_vs(&mut b, t, q, target[q]));
    }
    let mut u = b.u;
    gen_ids(t, &mut u, p);
    (
        u,
        Problem {
            reqs,
            constraints,
            soft: vec![],
        },
    )
}

/// C08: a solution containing the first choice of every root requirement exists by
/// construction (the target closure of a conflict-free universe), but the preferred
/// candidates of packages that the root does not require directly are demoted targets:
/// their first-ranked candidates carry noisy dependencies, so the search has to learn and
/// backtrack below the direct requirements.
pub fn gen_direct_best(t: &mut Tape, p: &Params) -> (Universe, Problem) {
    let mut params = p.clone();
    params.p_root_union = 0;
    let (mut u, problem) = gen_conflict_free(t, &params, true);
    let root_pkgs: Vec<usize> = problem
        .reqs
        .iter()
        .flat_map(|r| u.req_vsets(r))
        .map(|vs| u.vsets[vs].pkg)
        .collect();
    for pi in 0..u.packages.len() {
        if root_pkgs.contains(&pi) {
            continue;
        }
        let n = u.packages[pi].cands.len();
        if n >= 2 && t.chance(2, 3) {
            // promote a random candidate to the front of the preference order
            let k = t.below(n);
            let pk = &mut u.packages[pi];
            pk.sort_rank.retain(|&c| c != k);
            pk.sort_rank.insert(0, k);
            if t.chance(1, 2) {
                pk.favored = None;
            }
            pk.locked = None;
        }
    }
    (u, problem)
}

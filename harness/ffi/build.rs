// Compiles shim.cpp (which includes the *current* /repo/cpp/include headers and the cbindgen
// headers generated from the current tree) with clang++-14 + ASan + UBSan(trap) and links it.
use std::path::PathBuf;
use std::process::Command;

fn main() {
    let out = PathBuf::from(std::env::var("OUT_DIR").unwrap());
    let gen = std::env::var("RESOLVO_GENERATED_INCLUDE_DIR").expect("RESOLVO_GENERATED_INCLUDE_DIR");
    let sanitize = std::env::var("VERIF_FFI_SANITIZE").unwrap_or_else(|_| "1".into()) == "1";
    println!("cargo:rerun-if-changed=shim.cpp");
    println!("cargo:rerun-if-env-changed=VERIF_FFI_SANITIZE");
    for h in [
        "resolvo.h",
        "resolvo_dependency_provider.h",
        "resolvo_pool.h",
        "resolvo_slice.h",
        "resolvo_string.h",
        "resolvo_vector.h",
    ] {
        println!("cargo:rerun-if-changed=/repo/cpp/include/{h}");
    }
    for h in ["resolvo_internal.h", "resolvo_string_internal.h", "resolvo_vector_internal.h"] {
        println!("cargo:rerun-if-changed={gen}/{h}");
    }
    let obj = out.join("shim.o");
    let mut cmd = Command::new("clang++-14");
    cmd.args(["-std=c++17", "-g", "-O1", "-fno-omit-frame-pointer", "-fPIC", "-Wall", "-c", "shim.cpp"])
        .arg("-I/repo/cpp/include")
        .arg(format!("-I{gen}"))
        .arg("-o")
        .arg(&obj);
    if sanitize {
        cmd.args(["-fsanitize=address,undefined", "-fsanitize-trap=undefined"]);
    }
    let st = cmd.status().expect("clang++-14");
    assert!(st.success(), "compiling shim.cpp failed");
    let lib = out.join("libshim.a");
    let _ = std::fs::remove_file(&lib);
    let st = Command::new("ar").arg("rcs").arg(&lib).arg(&obj).status().expect("ar");
    assert!(st.success());
    println!("cargo:rustc-link-search=native={}", out.display());
    println!("cargo:rustc-link-lib=static=shim");
    println!("cargo:rustc-link-lib=dylib=stdc++");
}

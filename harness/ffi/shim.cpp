// C++ side of the C17 harness. Includes the CURRENT headers from /repo/cpp/include and the
// cbindgen headers generated from the current tree. Two entry points:
//   shim_solve      - a resolvo::DependencyProvider whose answers come from the Rust model
//                     (through vq_* callbacks); calls resolvo::solve
//   shim_containers - interpreter for container operation histories over a register file of
//                     resolvo::Vector<SolvableId>, resolvo::String, resolvo::Vector<String>
#include <algorithm>
#include <cstdint>
#include <cstring>
#include <map>
#include <ostream>
#include <string>
#include <vector>

#include "resolvo.h"
#include "resolvo_pool.h"

using resolvo::Candidates;
using resolvo::Dependencies;
using resolvo::ExcludedSolvable;
using resolvo::NameId;
using resolvo::Slice;
using resolvo::SolvableId;
using resolvo::String;
using resolvo::StringId;
using resolvo::Vector;
using resolvo::VersionSetId;
using resolvo::VersionSetUnionId;

extern "C" {
// ---- model queries, implemented in Rust (ffidrv) ----
void vq_str(void *ctx, uint32_t kind, uint32_t id, const char **ptr, size_t *len);
uint32_t vq_version_set_name(void *ctx, uint32_t vs);
uint32_t vq_solvable_name(void *ctx, uint32_t s);
void vq_union(void *ctx, uint32_t u, const uint32_t **ptr, size_t *len);
void vq_candidates(void *ctx, uint32_t name, const uint32_t **cands, size_t *n, int64_t *favored,
                   int64_t *locked, const uint32_t **hints, size_t *nh, const uint32_t **excl,
                   size_t *ne);
uint32_t vq_rank(void *ctx, uint32_t solvable);
int vq_matches(void *ctx, uint32_t vs, uint32_t solvable);
void vq_dependencies(void *ctx, uint32_t solvable, const uint32_t **reqs, size_t *nr,
                     const uint32_t **cons, size_t *nc);
uint32_t vq_style(void *ctx);
// ---- container histories ----
void vq_emit(void *ctx, uint32_t tag, const uint32_t *data, size_t n);
void vq_emit_str(void *ctx, uint32_t tag, const char *ptr, size_t len);
void rust_roundtrip_vec(void *ctx, Vector<SolvableId> *v, uint32_t mode, uint32_t x);
void rust_roundtrip_string(void *ctx, String *s, uint32_t mode, uint32_t idx);
void rust_roundtrip_vecstr(void *ctx, Vector<String> *v, uint32_t mode, uint32_t idx);
}

namespace {

std::string model_str(void *ctx, uint32_t kind, uint32_t id) {
    const char *p = nullptr;
    size_t n = 0;
    vq_str(ctx, kind, id, &p, &n);
    return std::string(p, n);
}

struct ShimProvider : public resolvo::DependencyProvider {
    void *ctx;
    // favored / locked pointers handed to Rust must stay valid: node-based maps
    std::map<uint32_t, SolvableId> favored_;
    std::map<uint32_t, SolvableId> locked_;

    explicit ShimProvider(void *c) : ctx(c) {}

    String display_solvable(SolvableId solvable) override {
        std::string s = model_str(ctx, 0, solvable.id);
        switch (vq_style(ctx) % 3) {
            case 0:
                return String(std::string_view(s));
            case 1:
                return String(s.c_str());
            default: {
                String tmp;
                tmp = std::string_view(s);
                String copy(tmp);
                return copy;
            }
        }
    }

    String display_merged_solvables(Slice<SolvableId> solvables) override {
        // mirrors the default implementation of resolvo::Interner::display_merged_solvables
        if (solvables.empty()) {
            return String("");
        }
        std::vector<std::string> versions;
        for (const SolvableId *it = solvables.cbegin(); it != solvables.cend(); ++it) {
            versions.push_back(model_str(ctx, 0, it->id));
        }
        std::sort(versions.begin(), versions.end());
        versions.erase(std::unique(versions.begin(), versions.end()), versions.end());
        std::string name = model_str(ctx, 1, vq_solvable_name(ctx, solvables.cbegin()->id));
        std::string out = name + " ";
        for (size_t i = 0; i < versions.size(); ++i) {
            if (i) out += " | ";
            out += versions[i];
        }
        return String(std::string_view(out));
    }

    String display_name(NameId name) override { return String(std::string_view(model_str(ctx, 1, name.id))); }

    String display_version_set(VersionSetId version_set) override {
        std::string s = model_str(ctx, 2, version_set.id);
        String a(std::string_view{s});
        String b;
        b = a;  // copy assignment
        return b;
    }

    String display_string(StringId string) override {
        return String(std::string_view(model_str(ctx, 3, string.id)));
    }

    NameId version_set_name(VersionSetId version_set_id) override {
        return NameId{vq_version_set_name(ctx, version_set_id.id)};
    }

    NameId solvable_name(SolvableId solvable_id) override {
        return NameId{vq_solvable_name(ctx, solvable_id.id)};
    }

    Slice<VersionSetId> version_sets_in_union(VersionSetUnionId version_set_union_id) override {
        const uint32_t *p = nullptr;
        size_t n = 0;
        vq_union(ctx, version_set_union_id.id, &p, &n);
        static_assert(sizeof(VersionSetId) == sizeof(uint32_t), "id layout");
        return Slice<VersionSetId>(reinterpret_cast<const VersionSetId *>(p), n);
    }

    Candidates get_candidates(NameId package) override {
        const uint32_t *cands = nullptr, *hints = nullptr, *excl = nullptr;
        size_t n = 0, nh = 0, ne = 0;
        int64_t favored = -1, locked = -1;
        vq_candidates(ctx, package.id, &cands, &n, &favored, &locked, &hints, &nh, &excl, &ne);
        Candidates result{};
        switch (vq_style(ctx) % 3) {
            case 0:
                for (size_t i = 0; i < n; ++i) result.candidates.push_back(SolvableId{cands[i]});
                break;
            case 1: {
                std::vector<SolvableId> tmp;
                for (size_t i = 0; i < n; ++i) tmp.push_back(SolvableId{cands[i]});
                result.candidates = Vector<SolvableId>(tmp.begin(), tmp.end());
                break;
            }
            default: {
                Vector<SolvableId> a;
                for (size_t i = 0; i < n; ++i) {
                    Vector<SolvableId> shared(a);  // forces copy-on-write on the next push
                    a.push_back(SolvableId{cands[i]});
                }
                result.candidates = a;
                break;
            }
        }
        // favored / locked are pointers: either into storage owned by the provider, or (just as
        // natural for an implementer) at the element of the returned candidates vector itself
        bool into_vector = vq_style(ctx) % 2 == 1;
        auto point_at = [&](int64_t id, std::map<uint32_t, SolvableId> &own) -> const SolvableId * {
            if (into_vector) {
                const Vector<SolvableId> &cv = result.candidates;
                for (size_t i = 0; i < cv.size(); ++i) {
                    if (cv[i].id == static_cast<uint32_t>(id)) return &cv[i];
                }
            }
            own[package.id] = SolvableId{static_cast<uint32_t>(id)};
            return &own[package.id];
        };
        if (favored >= 0) result.favored = point_at(favored, favored_);
        if (locked >= 0) result.locked = point_at(locked, locked_);
        for (size_t i = 0; i < nh; ++i) result.hint_dependencies_available.push_back(SolvableId{hints[i]});
        for (size_t i = 0; i < ne; ++i) {
            result.excluded.push_back(ExcludedSolvable{SolvableId{excl[2 * i]}, StringId{excl[2 * i + 1]}});
        }
        return result;
    }

    void sort_candidates(Slice<SolvableId> solvables) override {
        std::sort(solvables.begin(), solvables.end(), [&](const SolvableId &a, const SolvableId &b) {
            return vq_rank(ctx, a.id) < vq_rank(ctx, b.id);
        });
    }

    Vector<SolvableId> filter_candidates(Slice<SolvableId> candidates, VersionSetId version_set_id,
                                         bool inverse) override {
        Vector<SolvableId> result;
        for (const SolvableId *it = candidates.cbegin(); it != candidates.cend(); ++it) {
            bool m = vq_matches(ctx, version_set_id.id, it->id) != 0;
            if (m != inverse) {
                if (vq_style(ctx) % 2) {
                    result.push_back(*it);
                } else {
                    SolvableId tmp = *it;
                    result.push_back(std::move(tmp));
                }
            }
        }
        return result;
    }

    Dependencies get_dependencies(SolvableId solvable) override {
        const uint32_t *reqs = nullptr, *cons = nullptr;
        size_t nr = 0, nc = 0;
        vq_dependencies(ctx, solvable.id, &reqs, &nr, &cons, &nc);
        Dependencies result;
        for (size_t i = 0; i < nr; ++i) {
            if (reqs[2 * i] == 0) {
                result.requirements.push_back(resolvo::requirement_single(VersionSetId{reqs[2 * i + 1]}));
            } else {
                result.requirements.push_back(resolvo::requirement_union(VersionSetUnionId{reqs[2 * i + 1]}));
            }
        }
        for (size_t i = 0; i < nc; ++i) result.constrains.push_back(VersionSetId{cons[i]});
        return result;
    }
};

}  // namespace

extern "C" int shim_solve(void *ctx, const uint32_t *reqs, size_t nreq, const uint32_t *cons,
                          size_t ncons, const uint32_t *soft, size_t nsoft, uint32_t *out,
                          size_t out_cap, size_t *out_len, char *err, size_t err_cap,
                          size_t *err_len) {
    ShimProvider provider(ctx);
    Vector<resolvo::Requirement> requirements;
    for (size_t i = 0; i < nreq; ++i) {
        if (reqs[2 * i] == 0) {
            requirements.push_back(resolvo::requirement_single(VersionSetId{reqs[2 * i + 1]}));
        } else {
            requirements.push_back(resolvo::requirement_union(VersionSetUnionId{reqs[2 * i + 1]}));
        }
    }
    Vector<VersionSetId> constraints;
    for (size_t i = 0; i < ncons; ++i) constraints.push_back(VersionSetId{cons[i]});
    Vector<SolvableId> soft_requirements;
    for (size_t i = 0; i < nsoft; ++i) soft_requirements.push_back(SolvableId{soft[i]});

    resolvo::Problem problem = {requirements, constraints, soft_requirements};
    Vector<SolvableId> result;
    // the caller's result vector may already hold the solution of an earlier solve (a
    // loop re-using one vector): whatever is in it must be replaced, not extended
    uint32_t prefill = vq_style(ctx) % 4;
    for (uint32_t i = 0; i < prefill; ++i) result.push_back(SolvableId{4000000 + i});
    Vector<SolvableId> keep_alive(result);  // shared with the caller's copy
    String error = resolvo::solve(provider, problem, result);

    std::string_view ev = error;
    *err_len = std::min(ev.size(), err_cap);
    std::memcpy(err, ev.data(), *err_len);
    *out_len = std::min(result.size(), out_cap);
    for (size_t i = 0; i < *out_len; ++i) out[i] = result[i].id;
    // 1 = solved (empty error string), 0 = error
    return ev.empty() ? 1 : 0;
}

// --------------------------------------------------------------------------- containers

namespace {
constexpr size_t NV = 4, NS = 4, NW = 2;

String sample(void *ctx, uint32_t idx) { return String(std::string_view(model_str(ctx, 9, idx))); }

void dump(void *ctx, const Vector<SolvableId> (&V)[NV], const String (&S)[NS],
          const Vector<String> (&W)[NW]) {
    for (size_t r = 0; r < NV; ++r) {
        std::vector<uint32_t> d;
        const Vector<SolvableId> &v = V[r];
        for (const SolvableId *it = v.begin(); it != v.end(); ++it) d.push_back(it->id);
        if (d.size() != v.size()) __builtin_trap();
        vq_emit(ctx, 100 + r, d.data(), d.size());
    }
    for (size_t r = 0; r < NS; ++r) {
        std::string_view sv = S[r];
        vq_emit_str(ctx, 200 + r, sv.data(), sv.size());
    }
    for (size_t r = 0; r < NW; ++r) {
        const Vector<String> &w = W[r];
        uint32_t n = static_cast<uint32_t>(w.size());
        vq_emit(ctx, 300 + r, &n, 1);
        for (size_t i = 0; i < w.size(); ++i) {
            std::string_view sv = w[i];
            vq_emit_str(ctx, 400 + r, sv.data(), sv.size());
        }
    }
}
}  // namespace

extern "C" void shim_containers(void *ctx, const uint32_t *ops, size_t n_ops) {
    Vector<SolvableId> V[NV];
    String S[NS];
    Vector<String> W[NW];
    for (size_t k = 0; k < n_ops; ++k) {
        const uint32_t *o = ops + 5 * k;
        uint32_t op = o[0], a = o[1], b = o[2], c = o[3], d = o[4];
        switch (op) {
            case 1:
                V[a % NV] = Vector<SolvableId>();
                break;
            case 2: {
                uint32_t kk = b % 4;
                if (kk == 0) V[a % NV] = Vector<SolvableId>{};
                if (kk == 1) V[a % NV] = Vector<SolvableId>{SolvableId{c}};
                if (kk == 2) V[a % NV] = Vector<SolvableId>{SolvableId{c}, SolvableId{d}};
                if (kk == 3) V[a % NV] = Vector<SolvableId>{SolvableId{c}, SolvableId{d}, SolvableId{c + d}};
                break;
            }
            case 3:
                V[a % NV] = Vector<SolvableId>(static_cast<size_t>(b % 6));
                break;
            case 4:
                V[a % NV] = Vector<SolvableId>(static_cast<size_t>(b % 6), SolvableId{c});
                break;
            case 5: {
                std::vector<SolvableId> tmp;
                for (uint32_t i = 0; i < b % 5; ++i) tmp.push_back(SolvableId{c + i});
                V[a % NV] = Vector<SolvableId>(tmp.begin(), tmp.end());
                break;
            }
            case 6:
                V[a % NV] = Vector<SolvableId>(V[b % NV]);
                break;
            case 7:
                V[a % NV] = V[b % NV];
                break;
            case 8:
                V[a % NV] = std::move(V[b % NV]);
                break;
            case 9: {
                SolvableId x{b};
                V[a % NV].push_back(x);
                break;
            }
            case 10:
                V[a % NV].push_back(SolvableId{b});
                break;
            case 11:
                V[a % NV].clear();
                break;
            case 12:
                if (V[a % NV].size() > 0) V[a % NV][b % V[a % NV].size()] = SolvableId{c};
                break;
            case 13: {
                uint32_t eq = (V[a % NV] == V[b % NV]) ? 1 : 0;
                vq_emit(ctx, 13, &eq, 1);
                break;
            }
            case 14: {
                // a mutable Slice must refer to storage this vector owns alone: write through it
                Slice<SolvableId> s = V[a % NV];
                uint32_t sum = 0;
                for (SolvableId *it = s.begin(); it != s.end(); ++it) {
                    it->id += 1;
                    sum += it->id;
                }
                uint32_t r[2] = {static_cast<uint32_t>(s.size()), sum};
                vq_emit(ctx, 14, r, 2);
                break;
            }
            case 15:
                rust_roundtrip_vec(ctx, &V[a % NV], b % 4, c);
                break;
            case 16: {
                const Vector<SolvableId> &cv = V[a % NV];
                uint32_t r[2] = {static_cast<uint32_t>(cv.size()),
                                 cv.empty() ? 0u : cv.at(cv.size() - 1).id};
                vq_emit(ctx, 16, r, 2);
                break;
            }
            case 20:
                S[a % NS] = String();
                break;
            case 21:
                S[a % NS] = sample(ctx, b);
                break;
            case 22: {
                std::string s = model_str(ctx, 9, b);
                S[a % NS] = String(s.c_str());
                break;
            }
            case 23:
                S[a % NS] = String(S[b % NS]);
                break;
            case 24:
                S[a % NS] = S[b % NS];
                break;
            case 25:
                S[a % NS] = std::move(S[b % NS]);
                break;
            case 26: {
                std::string s = model_str(ctx, 9, b);
                S[a % NS] = std::string_view(s);
                break;
            }
            case 27: {
                std::string s = model_str(ctx, 9, b);
                S[a % NS] = s.c_str();
                break;
            }
            case 28: {
                uint32_t r[2] = {(S[a % NS] == S[b % NS]) ? 1u : 0u, (S[a % NS] != S[b % NS]) ? 1u : 0u};
                vq_emit(ctx, 28, r, 2);
                break;
            }
            case 29:
                rust_roundtrip_string(ctx, &S[a % NS], b % 4, c);
                break;
            case 30:
                W[a % NW] = Vector<String>();
                break;
            case 31:
                W[a % NW].push_back(S[b % NS]);
                break;
            case 32:
                W[a % NW].push_back(sample(ctx, b));
                break;
            case 33:
                W[a % NW] = W[b % NW];
                break;
            case 34:
                W[a % NW] = std::move(W[b % NW]);
                break;
            case 35:
                W[a % NW].clear();
                break;
            case 36:
                W[a % NW] = Vector<String>(W[b % NW]);
                break;
            case 37:
                if (W[a % NW].size() > 0) W[a % NW][b % W[a % NW].size()] = S[c % NS];
                break;
            case 38:
                W[a % NW] = Vector<String>(static_cast<size_t>(b % 4), S[c % NS]);
                break;
            case 39:
                rust_roundtrip_vecstr(ctx, &W[a % NW], b % 4, c);
                break;
            default:
                break;
        }
        dump(ctx, V, S, W);
        // layout invariant of the shared Vector: never more elements than capacity (a vector
        // that violates it has written past its allocation)
        for (uint32_t r = 0; r < NV; ++r) {
            if (V[r].size() > V[r].capacity()) {
                uint32_t bad[3] = {r, static_cast<uint32_t>(V[r].size()), static_cast<uint32_t>(V[r].capacity())};
                vq_emit(ctx, 990, bad, 3);
            }
        }
        for (uint32_t r = 0; r < NW; ++r) {
            if (W[r].size() > W[r].capacity()) {
                uint32_t bad[3] = {r, static_cast<uint32_t>(W[r].size()), static_cast<uint32_t>(W[r].capacity())};
                vq_emit(ctx, 991, bad, 3);
            }
        }
    }
    // resolvo::Pool, the interning helper the binding ships for provider authors: equal values
    // share an id, ids are dense from 0 and operator[] returns exactly what was interned - for a
    // value type with a move constructor (std::string, short and beyond the small-string buffer)
    // and for resolvo::String. Nothing is emitted unless a check fails.
    {
        resolvo::Pool<resolvo::NameId, std::string> ps;
        resolvo::Pool<resolvo::NameId, String> pr;
        std::vector<std::string> model;
        for (size_t k = 0; k < n_ops; ++k) {
            uint32_t x = ops[5 * k + 1] ^ ops[5 * k + 3];
            std::string v = "value-" + std::to_string(x % 11);
            if (x % 5 == 0) v += std::string(40, 'y');
            uint32_t want = static_cast<uint32_t>(std::find(model.begin(), model.end(), v) - model.begin());
            if (want == model.size()) model.push_back(v);
            resolvo::NameId a = ps.alloc(v);
            resolvo::NameId b = pr.alloc(String(std::string_view(v)));
            if (a.id != want || b.id != want) {
                uint32_t bad[3] = {want, a.id, b.id};
                vq_emit(ctx, 992, bad, 3);
            }
            for (uint32_t j = 0; j < model.size(); ++j) {
                if (ps[resolvo::NameId{j}] != model[j] || std::string_view(pr[resolvo::NameId{j}]) != std::string_view(model[j])) {
                    uint32_t bad[2] = {j, static_cast<uint32_t>(ps[resolvo::NameId{j}].size())};
                    vq_emit(ctx, 993, bad, 2);
                }
            }
        }
    }
}

//! ffidrv: the sanitizer-instrumented child process of the C17 check. Reads one case per
//! line on stdin (`<kind> v1 v2 ...` = a choice tape), evaluates it and answers with one
//! JSON line `R {...}`. A memory error makes ASan abort the process; the parent then
//! attributes the report to the case it had just sent.

mod ledger;
mod rustcont;

use resolvo::{Problem as RProblem, Solver, UnsolvableOrCancelled};
use resolvo_cpp::verif::{String as CString, Vector as CVector};
use std::cell::RefCell;
use std::ffi::c_void;
use std::io::{BufRead, Write};
use std::rc::Rc;
use vcore::gen::{gen_case, Params};
use vcore::model::*;
use vcore::provider::TableProvider;
use vcore::tape::Tape;

#[global_allocator]
static ALLOC: ledger::Ledger = ledger::Ledger;

#[derive(Debug, Clone, PartialEq, Eq)]
pub enum Emit {
    U32(u32, Vec<u32>),
    Str(u32, Vec<u8>),
}

pub struct Ctx {
    u: Rc<Universe>,
    ix: Index,
    keep_u32: RefCell<Vec<Vec<u32>>>,
    keep_str: RefCell<Vec<Vec<u8>>>,
    style: RefCell<(Vec<u16>, usize)>,
    calls: RefCell<[u32; 8]>,
    emitted: RefCell<Vec<Emit>>,
}

pub const SAMPLES: [&str; 8] = [
    "",
    "a",
    "hello",
    "with space and = sign",
    "h\u{e9}llo \u{2713} unicode",
    "0123456789012345678901234567890123456789012345678901234567890123456789012345678901234567890123456789",
    "x",
    "pkg=1.0",
];

impl Ctx {
    fn new(u: Rc<Universe>, style: Vec<u16>) -> Self {
        Ctx {
            ix: Index::new(&u),
            u,
            keep_u32: RefCell::new(vec![]),
            keep_str: RefCell::new(vec![]),
            style: RefCell::new((style, 0)),
            calls: RefCell::new([0; 8]),
            emitted: RefCell::new(vec![]),
        }
    }
    fn keep(&self, v: Vec<u32>) -> (*const u32, usize) {
        let mut k = self.keep_u32.borrow_mut();
        k.push(v);
        let last = k.last().unwrap();
        (last.as_ptr(), last.len())
    }
}

unsafe fn ctx<'a>(p: *mut c_void) -> &'a Ctx {
    &*(p as *const Ctx)
}

#[no_mangle]
pub unsafe extern "C" fn vq_str(c: *mut c_void, kind: u32, id: u32, ptr: *mut *const u8, len: *mut usize) {
    let c = ctx(c);
    let s: String = match kind {
        0 => {
            c.calls.borrow_mut()[0] += 1;
            c.u.display_solvable(c.ix.solvable[&id])
        }
        1 => c.u.packages[c.ix.name[&id]].name.clone(),
        2 => c.u.display_vs(c.ix.vset[&id]),
        3 => c.u.strings[c.ix.string[&id]].text.clone(),
        _ => SAMPLES[id as usize % SAMPLES.len()].to_string(),
    };
    let mut k = c.keep_str.borrow_mut();
    k.push(s.into_bytes());
    let last = k.last().unwrap();
    *ptr = last.as_ptr();
    *len = last.len();
}

#[no_mangle]
pub unsafe extern "C" fn vq_version_set_name(c: *mut c_void, vs: u32) -> u32 {
    let c = ctx(c);
    c.u.packages[c.u.vsets[c.ix.vset[&vs]].pkg].name_id
}

#[no_mangle]
pub unsafe extern "C" fn vq_solvable_name(c: *mut c_void, s: u32) -> u32 {
    let c = ctx(c);
    c.u.packages[c.ix.solvable[&s].pkg].name_id
}

#[no_mangle]
pub unsafe extern "C" fn vq_union(c: *mut c_void, un: u32, ptr: *mut *const u32, len: *mut usize) {
    let c = ctx(c);
    let v: Vec<u32> = c.u.unions[c.ix.union[&un]].members.iter().map(|&m| c.u.vsets[m].id).collect();
    let (p, n) = c.keep(v);
    *ptr = p;
    *len = n;
}

#[no_mangle]
pub unsafe extern "C" fn vq_candidates(
    c: *mut c_void,
    name: u32,
    cands: *mut *const u32,
    n: *mut usize,
    favored: *mut i64,
    locked: *mut i64,
    hints: *mut *const u32,
    nh: *mut usize,
    excl: *mut *const u32,
    ne: *mut usize,
) {
    let c = ctx(c);
    c.calls.borrow_mut()[1] += 1;
    // the very answer the Rust-side provider gives (a lock, hint or exclusion may name a
    // solvable that is not among the listed candidates)
    let ans = vcore::provider::candidates_answer(&c.u, c.ix.name[&name], false).expect("expressible universes have no missing package");
    let (p, l) = c.keep(ans.candidates.iter().map(|s| s.0).collect());
    *cands = p;
    *n = l;
    *favored = ans.favored.map(|s| s.0 as i64).unwrap_or(-1);
    *locked = ans.locked.map(|s| s.0 as i64).unwrap_or(-1);
    let hv: Vec<u32> = match &ans.hint_dependencies_available {
        resolvo::HintDependenciesAvailable::None => vec![],
        resolvo::HintDependenciesAvailable::All => ans.candidates.iter().map(|s| s.0).collect(),
        resolvo::HintDependenciesAvailable::Some(v) => v.iter().map(|s| s.0).collect(),
    };
    let (p, l) = c.keep(hv);
    *hints = p;
    *nh = l;
    let ev: Vec<u32> = ans.excluded.iter().flat_map(|(s, r)| [s.0, r.0]).collect();
    let (p, l) = c.keep(ev);
    *excl = p;
    *ne = l / 2;
}

#[no_mangle]
pub unsafe extern "C" fn vq_rank(c: *mut c_void, s: u32) -> u32 {
    let c = ctx(c);
    c.calls.borrow_mut()[2] += 1;
    let r = c.ix.solvable[&s];
    c.u.packages[r.pkg].sort_rank.iter().position(|&i| i == r.idx).unwrap_or(usize::MAX >> 40) as u32
}

#[no_mangle]
pub unsafe extern "C" fn vq_matches(c: *mut c_void, vs: u32, s: u32) -> i32 {
    let c = ctx(c);
    c.calls.borrow_mut()[3] += 1;
    c.u.vs_matches(c.ix.vset[&vs], c.ix.solvable[&s]) as i32
}

#[no_mangle]
pub unsafe extern "C" fn vq_dependencies(
    c: *mut c_void,
    s: u32,
    reqs: *mut *const u32,
    nr: *mut usize,
    cons: *mut *const u32,
    nc: *mut usize,
) {
    let c = ctx(c);
    c.calls.borrow_mut()[4] += 1;
    let (rv, cv): (Vec<u32>, Vec<u32>) = match &c.u.cand(c.ix.solvable[&s]).deps {
        Deps::Known { reqs, constrains } => (
            reqs.iter()
                .flat_map(|r| match r {
                    Req::Single(v) => [0, c.u.vsets[*v].id],
                    Req::Union(un) => [1, c.u.unions[*un].id],
                })
                .collect(),
            constrains.iter().map(|&v| c.u.vsets[v].id).collect(),
        ),
        Deps::Unknown(_) => (vec![], vec![]),
    };
    let (p, l) = c.keep(rv);
    *reqs = p;
    *nr = l / 2;
    let (p, l) = c.keep(cv);
    *cons = p;
    *nc = l;
}

#[no_mangle]
pub unsafe extern "C" fn vq_style(c: *mut c_void) -> u32 {
    let c = ctx(c);
    let mut s = c.style.borrow_mut();
    let v = s.0.get(s.1).copied().unwrap_or(0);
    s.1 += 1;
    v as u32
}

#[no_mangle]
pub unsafe extern "C" fn vq_emit(c: *mut c_void, tag: u32, data: *const u32, n: usize) {
    let c = ctx(c);
    let v = if n == 0 { vec![] } else { std::slice::from_raw_parts(data, n).to_vec() };
    c.emitted.borrow_mut().push(Emit::U32(tag, v));
}

#[no_mangle]
pub unsafe extern "C" fn vq_emit_str(c: *mut c_void, tag: u32, ptr: *const u8, n: usize) {
    let c = ctx(c);
    let v = if n == 0 { vec![] } else { std::slice::from_raw_parts(ptr, n).to_vec() };
    c.emitted.borrow_mut().push(Emit::Str(tag, v));
}

// ---- boundary crossings for the C++ container histories: Rust reads, clones, grows and
// ---- writes back through the out-parameter exactly as the bridge in cpp/src/lib.rs does

#[no_mangle]
pub unsafe extern "C" fn rust_roundtrip_vec(c: *mut c_void, v: *mut CVector<resolvo_cpp::SolvableId>, mode: u32, x: u32) {
    let c = ctx(c);
    let to_u32 = |e: &resolvo_cpp::SolvableId| -> u32 { resolvo::SolvableId::from(*e).0 };
    match mode {
        0 => {
            let data: Vec<u32> = (*v).as_slice().iter().map(to_u32).collect();
            c.emitted.borrow_mut().push(Emit::U32(15, data));
        }
        1 => {
            let mut cl = (*v).clone();
            cl.push(resolvo::SolvableId(x).into());
            *v = cl;
        }
        2 => {
            let old = std::mem::take(&mut *v);
            *v = old
                .into_iter()
                .chain(std::iter::once(resolvo::SolvableId(x).into()))
                .collect();
        }
        _ => {
            *v = CVector::default();
        }
    }
}

#[no_mangle]
pub unsafe extern "C" fn rust_roundtrip_string(c: *mut c_void, s: *mut CString, mode: u32, idx: u32) {
    let c = ctx(c);
    match mode {
        0 => {
            let data = (*s).as_str().as_bytes().to_vec();
            c.emitted.borrow_mut().push(Emit::Str(29, data));
        }
        1 => {
            *s = CString::from(SAMPLES[idx as usize % SAMPLES.len()]);
        }
        2 => {
            let cl = (*s).clone();
            let cl2 = cl.clone();
            *s = cl2;
            drop(cl);
        }
        _ => {
            *s = CString::default();
        }
    }
}

#[no_mangle]
pub unsafe extern "C" fn rust_roundtrip_vecstr(c: *mut c_void, v: *mut CVector<CString>, mode: u32, idx: u32) {
    let c = ctx(c);
    match mode {
        0 => {
            for e in (*v).as_slice() {
                c.emitted.borrow_mut().push(Emit::Str(39, e.as_str().as_bytes().to_vec()));
            }
        }
        1 => {
            let mut cl = (*v).clone();
            cl.push(CString::from(SAMPLES[idx as usize % SAMPLES.len()]));
            *v = cl;
        }
        2 => {
            let old = std::mem::take(&mut *v);
            *v = old.into_iter().collect();
        }
        _ => {
            *v = CVector::default();
        }
    }
}

extern "C" {
    fn shim_solve(
        ctx: *mut c_void,
        reqs: *const u32,
        nreq: usize,
        cons: *const u32,
        ncons: usize,
        soft: *const u32,
        nsoft: usize,
        out: *mut u32,
        out_cap: usize,
        out_len: *mut usize,
        err: *mut u8,
        err_cap: usize,
        err_len: *mut usize,
    ) -> i32;
    fn shim_containers(ctx: *mut c_void, ops: *const u32, n_ops: usize);
}

#[derive(Default)]
struct Report {
    labels: Vec<String>,
    nontrivial: bool,
    failure: Option<(String, String)>,
    describe: String,
}

// ------------------------------------------------------------------------- differential solve

fn ffi_params() -> Params {
    let mut p = Params::default().with_soft(3, 120);
    p.p_unknown = 0; // not expressible through the C++ interface
    p.max_pkgs = 7;
    p
}

/// What the C++ interface can express: a missing package is an empty candidate list and
/// hints are always an explicit list.
///
/// `pad`: for packages whose bit is set, a partial hint list is padded with repetitions of
/// its entries up to the length of the candidate list (a list with duplicates is a legal
/// `Vector<SolvableId>`; it hints exactly the solvables it names, however long it is).
fn expressible(u: &Universe, pad: u16) -> Universe {
    let mut u = u.clone();
    for (pi, pk) in u.packages.iter_mut().enumerate() {
        if pk.missing {
            pk.missing = false;
        }
        pk.hint = match &pk.hint {
            Hint::None => Hint::Some(vec![]),
            Hint::All => Hint::Some((0..pk.cands.len()).collect()),
            Hint::Some(v) if !v.is_empty() && v.len() < pk.cands.len() && (pad >> (pi % 16)) & 1 == 1 => {
                let mut w = v.clone();
                let mut k = 0;
                while w.len() < pk.cands.len() {
                    w.push(v[k % v.len()]);
                    k += 1;
                }
                Hint::Some(w)
            }
            h => h.clone(),
        };
    }
    u
}

fn eval_solve(tape: &[u16]) -> Report {
    let mut rep = Report::default();
    let split = tape.len().min(64);
    let (head, tail) = tape.split_at(split);
    let mut t = Tape::new(tail);
    let (u0, problem) = if head.first().map(|v| v % 2 == 0).unwrap_or(true) {
        gen_case(&mut t, &ffi_params())
    } else {
        let mut p = Params::conflict_heavy().with_soft(3, 120);
        p.p_unknown = 0;
        gen_case(&mut t, &p)
    };
    let u = Rc::new(expressible(&u0, head.get(1).copied().unwrap_or(0)));
    rep.describe = u.describe(&problem);
    // Rust API
    let provider = TableProvider::new(u.clone());
    let reqs: Vec<resolvo::Requirement> = problem.reqs.iter().map(|r| provider.to_requirement(r)).collect();
    let cons: Vec<resolvo::VersionSetId> = problem.constraints.iter().map(|&v| resolvo::VersionSetId(u.vsets[v].id)).collect();
    let soft: Vec<resolvo::SolvableId> = problem.soft.iter().map(|&s| provider.sid(s)).collect();
    let mut solver = Solver::new(provider);
    let expected: Result<Vec<u32>, String> = match solver.solve(
        RProblem::new()
            .requirements(reqs.clone())
            .constraints(cons.clone())
            .soft_requirements(soft.clone()),
    ) {
        Ok(s) => Ok(s.into_iter().map(|x| x.0).collect()),
        Err(UnsolvableOrCancelled::Unsolvable(c)) => Err(c.display_user_friendly(&solver).to_string()),
        Err(UnsolvableOrCancelled::Cancelled(_)) => Err("cancelled".to_string()),
    };
    drop(solver);
    // C++ API
    let cx = Ctx::new(u.clone(), head.to_vec());
    let flat_reqs: Vec<u32> = reqs
        .iter()
        .flat_map(|r| match r {
            resolvo::Requirement::Single(v) => [0, v.0],
            resolvo::Requirement::Union(v) => [1, v.0],
        })
        .collect();
    let flat_cons: Vec<u32> = cons.iter().map(|v| v.0).collect();
    let flat_soft: Vec<u32> = soft.iter().map(|v| v.0).collect();
    let mut out = vec![0u32; 4096];
    let mut out_len = 0usize;
    let mut err = vec![0u8; 1 << 20];
    let mut err_len = 0usize;
    let solved = unsafe {
        shim_solve(
            &cx as *const Ctx as *mut c_void,
            flat_reqs.as_ptr(),
            flat_reqs.len() / 2,
            flat_cons.as_ptr(),
            flat_cons.len(),
            flat_soft.as_ptr(),
            flat_soft.len(),
            out.as_mut_ptr(),
            out.len(),
            &mut out_len,
            err.as_mut_ptr(),
            err.len(),
            &mut err_len,
        )
    };
    let got: Result<Vec<u32>, String> = if solved == 1 {
        Ok(out[..out_len].to_vec())
    } else {
        Err(String::from_utf8_lossy(&err[..err_len]).to_string())
    };
    let calls = *cx.calls.borrow();
    rep.labels.push(if expected.is_ok() { "sat".into() } else { "unsat".into() });
    let many = calls[1] >= 3 && calls[3] >= 3 && calls[4] >= 3;
    if many {
        rep.labels.push("callbacks>=3-each".into());
    }
    rep.nontrivial = many && (expected.is_err() || expected.as_ref().map(|s| s.len() >= 3).unwrap_or(false));
    if got != expected {
        rep.failure = Some((
            match (&expected, &got) {
                (Ok(_), Ok(_)) => "C17:solution-differs".into(),
                (Err(_), Err(_)) => "C17:error-text-differs".into(),
                _ => "C17:verdict-differs".into(),
            },
            format!("Rust API: {expected:?}\nC++ API:  {got:?}"),
        ));
    }
    rep
}

// ------------------------------------------------------------------------- C++ containers

pub const NV: usize = 4;
pub const NS: usize = 4;
pub const NW: usize = 2;

fn decode_ops(tape: &[u16]) -> Vec<[u32; 5]> {
    let mut t = Tape::new(tape);
    let n = 1 + t.below(40);
    let codes: [u32; 36] = [
        1, 2, 3, 4, 5, 6, 7, 8, 9, 9, 10, 11, 12, 13, 14, 15, 15, 16, 20, 21, 22, 23, 24, 25, 26, 27, 28, 29, 29, 30, 31, 32, 33, 34, 36, 39,
    ];
    let extra: [u32; 3] = [35, 37, 38];
    let mut ops = vec![];
    for _ in 0..n {
        let op = if t.chance(1, 8) { extra[t.below(3)] } else { codes[t.below(codes.len())] };
        ops.push([op, t.below(8) as u32, t.below(8) as u32, t.below(100) as u32, t.below(100) as u32]);
    }
    ops
}

#[derive(Clone, Default)]
struct Model {
    v: [Vec<u32>; NV],
    s: [Vec<u8>; NS],
    w: [Vec<Vec<u8>>; NW],
}

fn sample(i: u32) -> Vec<u8> {
    SAMPLES[i as usize % SAMPLES.len()].as_bytes().to_vec()
}

/// Reference interpreter: the emission sequence the C++ side must produce.
fn model_run(ops: &[[u32; 5]]) -> Vec<Emit> {
    let mut m = Model::default();
    let mut out = vec![];
    for o in ops {
        let [op, a, b, c, d] = *o;
        let (av, bv) = (a as usize % NV, b as usize % NV);
        let (as_, bs) = (a as usize % NS, b as usize % NS);
        let (aw, bw) = (a as usize % NW, b as usize % NW);
        match op {
            1 => m.v[av].clear(),
            2 => {
                m.v[av] = match b % 4 {
                    0 => vec![],
                    1 => vec![c],
                    2 => vec![c, d],
                    _ => vec![c, d, c + d],
                }
            }
            3 => m.v[av] = vec![0; (b % 6) as usize],
            4 => m.v[av] = vec![c; (b % 6) as usize],
            5 => m.v[av] = (0..b % 5).map(|i| c + i).collect(),
            6 | 7 => {
                let x = m.v[bv].clone();
                m.v[av] = x;
            }
            8 => m.v.swap(av, bv),
            9 | 10 => m.v[av].push(b),
            11 => m.v[av].clear(),
            12 => {
                if !m.v[av].is_empty() {
                    let n = m.v[av].len();
                    m.v[av][b as usize % n] = c;
                }
            }
            13 => out.push(Emit::U32(13, vec![(m.v[av] == m.v[bv]) as u32])),
            14 => {
                for x in m.v[av].iter_mut() {
                    *x = x.wrapping_add(1);
                }
                out.push(Emit::U32(14, vec![m.v[av].len() as u32, m.v[av].iter().fold(0u32, |x, y| x.wrapping_add(*y))]))
            }
            15 => match b % 4 {
                0 => out.push(Emit::U32(15, m.v[av].clone())),
                1 | 2 => m.v[av].push(c),
                _ => m.v[av].clear(),
            },
            16 => out.push(Emit::U32(16, vec![m.v[av].len() as u32, m.v[av].last().copied().unwrap_or(0)])),
            20 => m.s[as_].clear(),
            21 | 22 | 26 | 27 => m.s[as_] = sample(b),
            23 | 24 => {
                let x = m.s[bs].clone();
                m.s[as_] = x;
            }
            25 => m.s.swap(as_, bs),
            28 => out.push(Emit::U32(28, vec![(m.s[as_] == m.s[bs]) as u32, (m.s[as_] != m.s[bs]) as u32])),
            29 => match b % 4 {
                0 => out.push(Emit::Str(29, m.s[as_].clone())),
                1 => m.s[as_] = sample(c),
                2 => {}
                _ => m.s[as_].clear(),
            },
            30 => m.w[aw].clear(),
            31 => {
                let x = m.s[bs].clone();
                m.w[aw].push(x)
            }
            32 => m.w[aw].push(sample(b)),
            33 | 36 => {
                let x = m.w[bw].clone();
                m.w[aw] = x;
            }
            34 => m.w.swap(aw, bw),
            35 => m.w[aw].clear(),
            37 => {
                if !m.w[aw].is_empty() {
                    let n = m.w[aw].len();
                    m.w[aw][b as usize % n] = m.s[c as usize % NS].clone();
                }
            }
            38 => m.w[aw] = vec![m.s[c as usize % NS].clone(); (b % 4) as usize],
            39 => match b % 4 {
                0 => {
                    for e in &m.w[aw] {
                        out.push(Emit::Str(39, e.clone()));
                    }
                }
                1 => m.w[aw].push(sample(c)),
                2 => {}
                _ => m.w[aw].clear(),
            },
            _ => {}
        }
        // register dump after every op
        for r in 0..NV {
            out.push(Emit::U32(100 + r as u32, m.v[r].clone()));
        }
        for r in 0..NS {
            out.push(Emit::Str(200 + r as u32, m.s[r].clone()));
        }
        for r in 0..NW {
            out.push(Emit::U32(300 + r as u32, vec![m.w[r].len() as u32]));
            for e in &m.w[r] {
                out.push(Emit::Str(400 + r as u32, e.clone()));
            }
        }
    }
    out
}

fn eval_cpp_containers(tape: &[u16]) -> Report {
    let mut rep = Report::default();
    let ops = decode_ops(tape);
    rep.describe = format!("{ops:?}");
    let expected = model_run(&ops);
    let cx = Ctx::new(Rc::new(Universe::default()), vec![]);
    let flat: Vec<u32> = ops.iter().flatten().copied().collect();
    unsafe { shim_containers(&cx as *const Ctx as *mut c_void, flat.as_ptr(), ops.len()) };
    let got = cx.emitted.borrow().clone();
    let crossings = ops.iter().filter(|o| matches!(o[0], 15 | 29 | 39)).count();
    let shared_then_mutated = ops.windows(2).any(|w| matches!(w[0][0], 6 | 7 | 23 | 24 | 33 | 36) && matches!(w[1][0], 9 | 10 | 12 | 14 | 15 | 31 | 32 | 37 | 39));
    if crossings > 0 {
        rep.labels.push("boundary-crossing".into());
    }
    if shared_then_mutated {
        rep.labels.push("shared-then-mutated".into());
    }
    rep.nontrivial = crossings > 0 && shared_then_mutated;
    if got != expected {
        let pos = got.iter().zip(expected.iter()).position(|(a, b)| a != b).unwrap_or(got.len().min(expected.len()));
        rep.failure = Some((
            "C17:cpp-container-model-mismatch".into(),
            format!(
                "emission #{pos}: C++ produced {:?}, model expects {:?} (ops {ops:?})",
                got.get(pos),
                expected.get(pos)
            ),
        ));
    }
    rep
}

// ------------------------------------------------------------------------- main loop

fn evaluate(kind: &str, tape: &[u16]) -> Report {
    let run = |tape: &[u16]| -> Report {
        match kind {
            "solve" => eval_solve(tape),
            "cpp" => eval_cpp_containers(tape),
            "rust" => rustcont::eval_rust_containers(tape),
            "c18" | "c19" => {
                // the Pool / Mapping histories of C18 / C19, evaluated inside this
                // AddressSanitizer-instrumented process
                let id = if kind == "c18" { "C18" } else { "C19" };
                let stage = vcore::props::registry::stages(id).into_iter().next().expect("stage");
                let rep = stage.prop.eval(tape);
                Report {
                    labels: rep.labels.iter().map(|s| s.to_string()).collect(),
                    nontrivial: rep.nontrivial,
                    failure: rep.failure.map(|f| (f.signature, f.detail)),
                    describe: String::new(),
                }
            }
            other => Report {
                failure: Some(("HARNESS:unknown-kind".into(), other.to_string())),
                ..Default::default()
            },
        }
    };
    let live = || ledger::LIVE.load(std::sync::atomic::Ordering::SeqCst);
    let mut rep = run(tape);
    if let Some(e) = ledger::take_error() {
        if rep.failure.is_none() {
            rep.failure = Some((format!("C17:ledger:{}", e.split(':').next().unwrap_or("")), e));
        }
    }
    if rep.failure.is_none() {
        // leak check: re-run the case and drop everything it returned; the number of live
        // allocations must be unchanged. Lazily initialised statics allocate once, so a
        // difference must reproduce on a second (warm) re-run to count as a leak.
        let b1 = live();
        drop(run(tape));
        let a1 = live();
        if a1 > b1 {
            let b2 = live();
            drop(run(tape));
            let a2 = live();
            if a2 > b2 {
                rep.failure = Some((
                    "C17:leak".into(),
                    format!("{} allocation(s) made by this case are still live after everything it returned was dropped (reproduced on a warm re-run)", a2 - b2),
                ));
            }
        }
        let _ = ledger::take_error();
    }
    rep
}

fn main() {
    let stdin = std::io::stdin();
    let stdout = std::io::stdout();
    let mut line = String::new();
    loop {
        line.clear();
        if stdin.lock().read_line(&mut line).unwrap_or(0) == 0 {
            break;
        }
        let mut it = line.split_whitespace();
        let Some(kind) = it.next() else { continue };
        let kind = kind.to_string();
        let tape: Vec<u16> = it.filter_map(|x| x.parse().ok()).collect();
        let rep = evaluate(&kind, &tape);
        let js = serde_json::json!({
            "labels": rep.labels,
            "nontrivial": rep.nontrivial,
            "failure": rep.failure.as_ref().map(|(s, d)| serde_json::json!({"signature": s, "detail": d})),
            "describe": rep.describe,
        });
        let mut o = stdout.lock();
        let _ = writeln!(o, "R {js}");
        let _ = o.flush();
    }
}

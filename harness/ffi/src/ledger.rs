//! Ledger global allocator: wraps `System`, remembers the layout of every live allocation
//! in a fixed open-addressing table (no allocation of its own), and verifies that every
//! `dealloc`/`realloc` presents the layout the block was allocated with. This catches
//! size/align mismatches between `resolvo_vector_allocate`/`resolvo_vector_free` (C++) and
//! Rust's `compute_inner_layout`, double frees and per-case leaks that ASan alone does not
//! attribute. Single-threaded use only (the driver is single-threaded).

use std::alloc::{GlobalAlloc, Layout, System};
use std::sync::atomic::{AtomicBool, AtomicUsize, Ordering};

const SLOTS: usize = 1 << 20;

#[derive(Clone, Copy)]
struct Entry {
    ptr: usize,
    size: usize,
    align: usize,
}

static mut TABLE: [Entry; SLOTS] = [Entry {
    ptr: 0,
    size: 0,
    align: 0,
}; SLOTS];

pub static LIVE: AtomicUsize = AtomicUsize::new(0);
pub static LIVE_BYTES: AtomicUsize = AtomicUsize::new(0);
static ERROR: AtomicBool = AtomicBool::new(false);
static mut ERROR_MSG: [u8; 256] = [0; 256];
static mut ERROR_LEN: usize = 0;
const TOMB: usize = 1;

fn hash(p: usize) -> usize {
    (p >> 4).wrapping_mul(0x9E37_79B9_7F4A_7C15) >> (64 - 20)
}

unsafe fn set_error(msg: &str) {
    if !ERROR.swap(true, Ordering::SeqCst) {
        let b = msg.as_bytes();
        let n = b.len().min(255);
        let dst = &raw mut ERROR_MSG;
        (&mut (*dst))[..n].copy_from_slice(&b[..n]);
        ERROR_LEN = n;
    }
}

pub fn take_error() -> Option<String> {
    if ERROR.swap(false, Ordering::SeqCst) {
        unsafe {
            let src = &raw const ERROR_MSG;
            Some(String::from_utf8_lossy(&(&(*src))[..ERROR_LEN]).to_string())
        }
    } else {
        None
    }
}

unsafe fn insert(ptr: usize, size: usize, align: usize) {
    let table = &raw mut TABLE;
    let mut i = hash(ptr);
    for _ in 0..SLOTS {
        let e = &mut (*table)[i];
        if e.ptr == 0 || e.ptr == TOMB {
            *e = Entry { ptr, size, align };
            LIVE.fetch_add(1, Ordering::Relaxed);
            LIVE_BYTES.fetch_add(size, Ordering::Relaxed);
            return;
        }
        i = (i + 1) & (SLOTS - 1);
    }
    set_error("ledger table full");
}

unsafe fn remove(ptr: usize) -> Option<Entry> {
    let table = &raw mut TABLE;
    let mut i = hash(ptr);
    for _ in 0..SLOTS {
        let e = &mut (*table)[i];
        if e.ptr == 0 {
            return None;
        }
        if e.ptr == ptr {
            let old = *e;
            e.ptr = TOMB;
            LIVE.fetch_sub(1, Ordering::Relaxed);
            LIVE_BYTES.fetch_sub(old.size, Ordering::Relaxed);
            return Some(old);
        }
        i = (i + 1) & (SLOTS - 1);
    }
    None
}

pub struct Ledger;

fn fmt_err(what: &str, a: (usize, usize), d: (usize, usize)) -> String {
    format!(
        "{what}: allocated with size={} align={}, released with size={} align={}",
        a.0, a.1, d.0, d.1
    )
}

unsafe impl GlobalAlloc for Ledger {
    unsafe fn alloc(&self, layout: Layout) -> *mut u8 {
        let p = System.alloc(layout);
        if !p.is_null() {
            insert(p as usize, layout.size(), layout.align());
        }
        p
    }
    unsafe fn alloc_zeroed(&self, layout: Layout) -> *mut u8 {
        let p = System.alloc_zeroed(layout);
        if !p.is_null() {
            insert(p as usize, layout.size(), layout.align());
        }
        p
    }
    unsafe fn dealloc(&self, ptr: *mut u8, layout: Layout) {
        match remove(ptr as usize) {
            None => {
                // static buffer: no allocation while reporting
                set_error("dealloc of a pointer the ledger does not know (double free or foreign pointer)");
            }
            Some(e) => {
                if e.size != layout.size() || e.align != layout.align() {
                    // cannot allocate here: keep the message short and allocation-free
                    let mut buf = [0u8; 200];
                    let msg = {
                        use std::io::Write;
                        let mut cur = std::io::Cursor::new(&mut buf[..]);
                        let _ = write!(
                            cur,
                            "dealloc layout mismatch: allocated size={} align={}, freed with size={} align={}",
                            e.size,
                            e.align,
                            layout.size(),
                            layout.align()
                        );
                        let n = cur.position() as usize;
                        n
                    };
                    set_error(std::str::from_utf8(&buf[..msg]).unwrap_or("dealloc layout mismatch"));
                }
            }
        }
        System.dealloc(ptr, layout)
    }
    unsafe fn realloc(&self, ptr: *mut u8, layout: Layout, new_size: usize) -> *mut u8 {
        match remove(ptr as usize) {
            None => set_error("realloc of a pointer the ledger does not know"),
            Some(e) => {
                if e.size != layout.size() || e.align != layout.align() {
                    set_error("realloc layout mismatch");
                }
            }
        }
        let p = System.realloc(ptr, layout, new_size);
        if !p.is_null() {
            insert(p as usize, new_size, layout.align());
        } else {
            insert(ptr as usize, layout.size(), layout.align());
        }
        p
    }
}

#[allow(dead_code)]
pub fn unused() -> String {
    fmt_err("", (0, 0), (0, 0))
}

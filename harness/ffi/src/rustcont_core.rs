//! C17.3: histories over the Rust side of the shared containers (`resolvo_cpp`'s
//! `Vector<T>` / `String`, reachable through the `verif-hooks` feature), checked against
//! `Vec` / `String` models under ASan + the ledger allocator (and Miri in the thorough tier).

use resolvo_cpp::verif::{String as CString, Vector as CVector};
use vcore::tape::Tape;

pub const SAMPLES: [&str; 8] = [
    "",
    "a",
    "hello",
    "with space and = sign",
    "h\u{e9}llo \u{2713} unicode",
    "0123456789012345678901234567890123456789012345678901234567890123456789012345678901234567890123456789",
    "x",
    "pkg=1.0",
];

struct LyingIter {
    data: Vec<u32>,
    pos: usize,
    hint: usize,
}

impl Iterator for LyingIter {
    type Item = u32;
    fn next(&mut self) -> Option<u32> {
        let v = self.data.get(self.pos).copied();
        self.pos += 1;
        v
    }
    fn size_hint(&self) -> (usize, Option<usize>) {
        (self.hint, None)
    }
}

pub fn decode(tape: &[u16]) -> Vec<[u32; 4]> {
    let mut t = Tape::new(tape);
    let n = 1 + t.below(50);
    (0..n)
        .map(|_| [1 + t.below(20) as u32, t.below(8) as u32, t.below(40) as u32, t.below(1000) as u32])
        .collect()
}

/// Runs one history; returns (failure description, non-trivial).
pub fn run(tape: &[u16]) -> (Option<String>, bool) {
    let ops = decode(tape);
    const NV: usize = 4;
    const NW: usize = 2;
    const NS: usize = 3;
    let mut v: Vec<CVector<u32>> = (0..NV).map(|_| CVector::default()).collect();
    let mut mv: Vec<Vec<u32>> = vec![vec![]; NV];
    let mut w: Vec<CVector<CString>> = (0..NW).map(|_| CVector::default()).collect();
    let mut mw: Vec<Vec<String>> = vec![vec![]; NW];
    let mut s: Vec<CString> = (0..NS).map(|_| CString::default()).collect();
    let mut ms: Vec<String> = vec![String::new(); NS];
    let sample = |i: u32| SAMPLES[i as usize % SAMPLES.len()];
    let mut shared_mut = false;
    let mut partial_iter = false;
    for (k, o) in ops.iter().enumerate() {
        let [op, a, b, c] = *o;
        let (av, bv) = (a as usize % NV, b as usize % NV);
        let (aw, bw) = (a as usize % NW, b as usize % NW);
        let (as_, bs) = (a as usize % NS, b as usize % NS);
        match op {
            1 => {
                v[av] = CVector::with_capacity(b as usize % 9);
                mv[av].clear();
            }
            2 => {
                v[av].push(c);
                mv[av].push(c);
            }
            3 => {
                let cl = v[bv].clone();
                v[av] = cl;
                mv[av] = mv[bv].clone();
            }
            4 => {
                // clone (shared) then push to the clone: must detach, original untouched
                let mut cl = v[bv].clone();
                cl.push(c);
                let mut m = mv[bv].clone();
                m.push(c);
                v[av] = cl;
                mv[av] = m;
                shared_mut = true;
            }
            5 => {
                // into_iter of a (possibly shared) vector, collect back
                let taken = std::mem::take(&mut v[av]);
                v[av] = taken.into_iter().map(|x| x.wrapping_add(1)).collect();
                for x in mv[av].iter_mut() {
                    *x = x.wrapping_add(1);
                }
            }
            6 => {
                // partially consumed into_iter, then dropped
                let keep_shared = b % 2 == 0;
                let other = if keep_shared { Some(v[av].clone()) } else { None };
                let taken = std::mem::take(&mut v[av]);
                let mut it = taken.into_iter();
                let mut got = vec![];
                for _ in 0..(c as usize % 4) {
                    if let Some(x) = it.next() {
                        got.push(x);
                    }
                }
                drop(it);
                let want: Vec<u32> = mv[av].iter().copied().take(c as usize % 4).collect();
                if got != want {
                    return (Some(format!("op #{k} {o:?}: partial into_iter yielded {got:?}, expected {want:?}")), false);
                }
                match other {
                    Some(o2) => v[av] = o2,
                    None => mv[av].clear(),
                }
                partial_iter = true;
            }
            7 => {
                // FromIterator with a lying size_hint (under- or over-reporting)
                let data: Vec<u32> = (0..(b % 12)).map(|i| c + i).collect();
                let hint = match a % 3 {
                    0 => 0,
                    1 => data.len() / 2,
                    _ => data.len() + 3,
                };
                v[av] = LyingIter {
                    data: data.clone(),
                    pos: 0,
                    hint,
                }
                .collect();
                mv[av] = data;
            }
            8 => {
                v[av] = CVector::default();
                mv[av].clear();
            }
            9 => {
                v.swap(av, bv);
                mv.swap(av, bv);
            }
            10 => {
                s[as_] = CString::from(sample(b));
                ms[as_] = sample(b).to_string();
            }
            11 => {
                let cl = s[bs].clone();
                s[as_] = cl;
                ms[as_] = ms[bs].clone();
            }
            12 => {
                s[as_] = CString::from(format!("{}{}", sample(b), c));
                ms[as_] = format!("{}{}", sample(b), c);
            }
            13 => {
                s[as_] = CString::default();
                ms[as_].clear();
            }
            14 => {
                w[aw].push(s[bs].clone());
                mw[aw].push(ms[bs].clone());
            }
            15 => {
                let mut cl = w[bw].clone();
                cl.push(CString::from(sample(c)));
                let mut m = mw[bw].clone();
                m.push(sample(c).to_string());
                w[aw] = cl;
                mw[aw] = m;
                shared_mut = true;
            }
            16 => {
                let keep_shared = b % 2 == 0;
                let other = if keep_shared { Some(w[aw].clone()) } else { None };
                let taken = std::mem::take(&mut w[aw]);
                let mut it = taken.into_iter();
                let mut got = vec![];
                for _ in 0..(c as usize % 3) {
                    if let Some(x) = it.next() {
                        got.push(x.as_str().to_string());
                    }
                }
                drop(it);
                let want: Vec<String> = mw[aw].iter().cloned().take(c as usize % 3).collect();
                if got != want {
                    return (Some(format!("op #{k} {o:?}: partial into_iter of strings yielded {got:?}, expected {want:?}")), false);
                }
                match other {
                    Some(o2) => w[aw] = o2,
                    None => mw[aw].clear(),
                }
                partial_iter = true;
            }
            17 => {
                let taken = std::mem::take(&mut w[aw]);
                w[aw] = taken.into_iter().collect();
            }
            18 => {
                w[aw] = CVector::default();
                mw[aw].clear();
            }
            19 => {
                let cl = w[bw].clone();
                w[aw] = cl;
                mw[aw] = mw[bw].clone();
            }
            _ => {
                v[av] = mv[bv].iter().copied().collect();
                mv[av] = mv[bv].clone();
            }
        }
        // compare every register with its model after every step
        for r in 0..NV {
            if v[r].as_slice() != &mv[r][..] || v[r].len() != mv[r].len() || v[r].is_empty() != mv[r].is_empty() {
                return (Some(format!("after op #{k} {o:?}: Vector<u32> register {r} = {:?}, model {:?}", v[r].as_slice(), mv[r])), false);
            }
        }
        for r in 0..NS {
            if s[r].as_str() != ms[r] || s[r].len() != ms[r].len() {
                return (Some(format!("after op #{k} {o:?}: String register {r} = {:?}, model {:?}", s[r].as_str(), ms[r])), false);
            }
        }
        for r in 0..NW {
            let got: Vec<&str> = w[r].as_slice().iter().map(|x| x.as_str()).collect();
            let want: Vec<&str> = mw[r].iter().map(|x| x.as_str()).collect();
            if got != want {
                return (Some(format!("after op #{k} {o:?}: Vector<String> register {r} = {got:?}, model {want:?}")), false);
            }
        }
    }
    (None, shared_mut && partial_iter)
}

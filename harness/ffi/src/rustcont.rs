//! C17.3 wrapper: see rustcont_core.rs (shared with the Miri tier).
use crate::Report;

#[path = "rustcont_core.rs"]
mod core;

pub fn eval_rust_containers(tape: &[u16]) -> Report {
    let mut rep = Report::default();
    rep.describe = format!("{:?}", core::decode(tape));
    let (fail, nontrivial) = core::run(tape);
    if let Some(f) = fail {
        rep.failure = Some(("C17:rust-container-model-mismatch".into(), f));
    }
    rep.nontrivial = nontrivial;
    if nontrivial {
        rep.labels.push("shared-then-mutated".into());
        rep.labels.push("partial-into-iter".into());
    }
    rep
}

//! vrun: `check <ID> <quick|thorough>`, `part <ID> <stage> <cases> <seed> <workers>`,
//! `replay <file>`, `stats <ID> [cases]`.

use vcore::props::registry::*;
use vcore::runner::*;

fn seed() -> u64 {
    std::env::var("VERIF_SEED")
        .ok()
        .and_then(|s| s.trim().parse::<u64>().ok())
        .unwrap_or(1)
}

fn workers() -> usize {
    std::env::var("VERIF_WORKERS")
        .ok()
        .and_then(|s| s.parse().ok())
        .unwrap_or_else(|| std::thread::available_parallelism().map(|n| n.get()).unwrap_or(8).min(16))
}

fn debug_binary() -> std::path::PathBuf {
    let me = std::env::current_exe().expect("current_exe");
    // .../target/release/vrun -> .../target/debug/vrun
    let target = me.parent().and_then(|p| p.parent()).expect("target dir");
    target.join("debug").join("vrun")
}

fn run_stage_here(stage: &Stage, tier: Tier, seed: u64) -> Stats {
    let opts = RunOpts {
        seed,
        cases: stage.cases(tier),
        workers: workers(),
        hang_secs: 60,
    };
    run_property(stage.prop.as_ref(), &opts, &[])
}

fn run_stage_child(id: &str, stage: &Stage, tier: Tier, seed: u64) -> Result<Stats, String> {
    let bin = debug_binary();
    let out = std::process::Command::new(&bin)
        .args([
            "part",
            id,
            stage.prop.stage(),
            &stage.cases(tier).to_string(),
            &seed.to_string(),
        ])
        .output()
        .map_err(|e| format!("cannot run {}: {e}", bin.display()))?;
    let stdout = String::from_utf8_lossy(&out.stdout);
    if out.status.code() == Some(2) && stdout.contains("INCONCLUSIVE") {
        return Err(format!("child hang: {stdout}"));
    }
    if out.status.code() == Some(1) && stdout.contains("VIOLATION") && !stdout.contains("STATS ") {
        // a confirmed hang in the child: pass its lines through
        print!("{stdout}");
        std::process::exit(1);
    }
    let line = stdout
        .lines()
        .find(|l| l.starts_with("STATS "))
        .ok_or_else(|| format!("child produced no stats (status {:?}): {stdout}\n{}", out.status, String::from_utf8_lossy(&out.stderr)))?;
    serde_json::from_str(&line[6..]).map_err(|e| format!("bad child stats: {e}"))
}

/// Does this binary evaluate stages of that profile in-process?
fn runs_here(p: Profile) -> bool {
    match p {
        Profile::Release => !cfg!(debug_assertions),
        Profile::Debug => cfg!(debug_assertions),
        Profile::Isolated | Profile::IsolatedDebug => false,
    }
}

fn isolated(p: Profile) -> bool {
    matches!(p, Profile::Isolated | Profile::IsolatedDebug)
}

/// The binary that evaluates the cases of an isolated stage.
fn isolated_bin(p: Profile) -> std::path::PathBuf {
    let me = std::env::current_exe().expect("current_exe");
    let target = me.parent().and_then(|p| p.parent()).expect("target dir");
    target.join(if p == Profile::IsolatedDebug { "debug" } else { "release" }).join("vrun")
}

/// Evaluates one tape of an isolated stage in a child process. `Ok(report line)` if the child
/// lived, `Err(signal or odd status)` if it died.
fn eval_in_child(bin: &std::path::Path, id: &str, stage: &str, tape: &[u16]) -> Result<String, String> {
    let dir = vcore::runner::verif_root().join("target");
    let _ = std::fs::create_dir_all(&dir);
    let file = dir.join(format!("evalone-{}-{:016x}.json", std::process::id(), hash_of(&tape)));
    std::fs::write(&file, serde_json::to_string(&serde_json::json!({ "tape": tape })).unwrap()).map_err(|e| e.to_string())?;
    let out = std::process::Command::new(bin)
        .args(["evalone", id, stage, file.to_str().unwrap()])
        .output();
    let _ = std::fs::remove_file(&file);
    let out = out.map_err(|e| e.to_string())?;
    let stdout = String::from_utf8_lossy(&out.stdout).to_string();
    if let Some(l) = stdout.lines().find(|l| l.starts_with("EVAL ")) {
        return Ok(l.to_string());
    }
    use std::os::unix::process::ExitStatusExt;
    let stderr = String::from_utf8_lossy(&out.stderr);
    let why = stderr.lines().rev().find(|l| l.contains("overflowed its stack") || l.contains("fatal runtime error") || l.contains("memory allocation")).unwrap_or("").trim().to_string();
    Err(match out.status.signal() {
        Some(sig) => format!("signal-{sig}{}", if why.is_empty() { String::new() } else { format!(" ({why})") }),
        None => format!("status-{:?}", out.status.code()),
    })
}

fn crash_class(e: &str) -> &str {
    e.split(' ').next().unwrap_or(e)
}

/// Runs a whole stage in a child process; the death of the child is attributed to one of the
/// cases it was evaluating (confirmed by evaluating that case alone in another child).
fn run_stage_isolated(id: &str, stage: &Stage, tier: Tier, seed: u64) -> Result<Stats, String> {
    let name = stage.prop.stage();
    let dir = vcore::runner::verif_root().join("target").join(format!("cur-{id}-{name}-{}", std::process::id()));
    let _ = std::fs::remove_dir_all(&dir);
    std::fs::create_dir_all(&dir).map_err(|e| e.to_string())?;
    let bin = isolated_bin(stage.profile);
    let out = std::process::Command::new(&bin)
        .args(["part", id, name, &stage.cases(tier).to_string(), &seed.to_string()])
        .env("VERIF_CURRENT_DIR", &dir)
        .output()
        .map_err(|e| format!("cannot start the child: {e}"))?;
    let stdout = String::from_utf8_lossy(&out.stdout);
    if let Some(line) = stdout.lines().find(|l| l.starts_with("STATS ")) {
        let _ = std::fs::remove_dir_all(&dir);
        return serde_json::from_str(&line[6..]).map_err(|e| format!("bad child stats: {e}"));
    }
    if out.status.code() == Some(2) && stdout.contains("INCONCLUSIVE") {
        let _ = std::fs::remove_dir_all(&dir);
        return Err(format!("child hang: {stdout}"));
    }
    if out.status.code() == Some(1) && stdout.contains("VIOLATION") {
        let _ = std::fs::remove_dir_all(&dir);
        print!("{stdout}");
        std::process::exit(1);
    }
    // the child died: which of the cases it was running does that alone?
    let tapes: Vec<Vec<u16>> = read_current_tapes(&dir);
    let _ = std::fs::remove_dir_all(&dir);
    for tape in tapes {
        if let Err(how) = eval_in_child(&bin, id, name, &tape) {
            let class = crash_class(&how).to_string();
            let fails = |t: &[u16]| eval_in_child(&bin, id, name, t).err().map(|e| crash_class(&e) == class).unwrap_or(false);
            let min = tape_passes(tape.clone(), &fails, stage.prop.shrink_budget());
            let mut s = Stats::default();
            s.cases = 1;
            s.evaluations = 1;
            s.violations.push(ViolationRecord {
                property: id.to_string(),
                stage: name.to_string(),
                signature: format!("crash:{class}"),
                detail: format!("the process evaluating this case died: {how} (evaluated alone in a fresh process, on a thread with a 2 MiB stack)"),
                description: stage.prop.describe(&min),
                tape: min,
                case: None,
                profile: if stage.profile == Profile::IsolatedDebug { "debug" } else { "release" }.to_string(),
            });
            return Ok(s);
        }
    }
    Err(format!(
        "the child running stage {name} died ({:?}) but none of the cases it was evaluating does that alone: {}",
        out.status,
        String::from_utf8_lossy(&out.stderr).lines().rev().take(5).collect::<Vec<_>>().join(" | ")
    ))
}

fn cmd_evalone(id: &str, stage_name: &str, file: &str) -> i32 {
    let stages = stages(id);
    let Some(stage) = stages.iter().find(|s| s.prop.stage() == stage_name) else {
        eprintln!("unknown stage {stage_name}");
        return 2;
    };
    let v: serde_json::Value = serde_json::from_str(&std::fs::read_to_string(file).expect("read tape file")).expect("parse tape file");
    let tape: Vec<u16> = serde_json::from_value(v["tape"].clone()).expect("tape");
    vcore::run::install_panic_hook();
    let rep = stage.prop.eval(&tape);
    match rep.failure {
        Some(f) => println!("EVAL fail {}", f.signature),
        None => println!("EVAL ok"),
    }
    0
}

fn cmd_check(id: &str, tier: Tier) -> i32 {
    let seed = seed();
    let start = std::time::Instant::now();
    let stages = stages(id);
    if stages.is_empty() {
        eprintln!("no stages registered for {id}");
        return 2;
    }
    let known = load_known();
    let mut total = Stats::default();
    // golden tier: the universes of the repository's own tests (vcore::golden), evaluated
    // with this property's oracle; for C02 also compared with the outcomes those tests pin
    let mut golden_run = 0u64;
    // VERIF_NO_REPLAY=1 (used by tools/seeded.py) skips the golden and replay tiers so that a
    // seeded change is judged by generated search alone
    let no_replay = std::env::var_os("VERIF_NO_REPLAY").is_some();
    if !no_replay && matches!(id, "C01" | "C02" | "C03" | "C04" | "C05" | "C06" | "C08" | "C10" | "C14") {
        vcore::run::install_panic_hook();
        if id == "C02" {
            let bad = vcore::golden::self_check();
            if !bad.is_empty() {
                for b in &bad {
                    println!("--- golden case disagrees with the outcome pinned by tests/solver.rs: {b}");
                }
                println!("VIOLATION property={id} replay={}", vcore::runner::verif_root().join("harness/vcore/src/golden.rs").display());
                return 1;
            }
        }
        if let Some(stage) = stages.iter().find(|s| runs_here(s.profile)) {
            for g in vcore::golden::all() {
                let rep = stage.prop.eval_struct(&g.case);
                golden_run += 1;
                total.evaluations += rep.evaluations.max(1);
                if let Some(fl) = rep.failure {
                    if match_known(&known, id, &fl.signature).is_none() {
                        let v = ViolationRecord {
                            property: id.to_string(),
                            stage: stage.prop.stage().to_string(),
                            signature: fl.signature.clone(),
                            detail: format!("golden case {}: {}", g.name, fl.detail),
                            description: stage.prop.describe_struct(&g.case),
                            tape: vec![],
                            case: Some(g.case.clone()),
                            profile: profile_name().to_string(),
                        };
                        let path = write_replay(&v);
                        println!("--- golden case {} ({}):\n{}", g.name, fl.signature, fl.detail);
                        println!("VIOLATION property={id} replay={}", path.display());
                        return 1;
                    }
                }
            }
        }
    }
    // replay tier: saved regression cases of this property (fixed findings, seeded changes)
    let mut replayed = 0u64;
    let reg_dir = vcore::runner::verif_root().join("regressions");
    if let Ok(rd) = std::fs::read_dir(&reg_dir).and_then(|rd| if no_replay { Err(std::io::Error::other("skipped")) } else { Ok(rd) }) {
        let mut files: Vec<_> = rd.filter_map(|e| e.ok()).map(|e| e.path()).collect();
        files.sort();
        for f in files {
            let name = f.file_name().and_then(|n| n.to_str()).unwrap_or("").to_string();
            if !name.starts_with(&format!("{id}-")) || !name.ends_with(".json") {
                continue;
            }
            let text = std::fs::read_to_string(&f).unwrap_or_default();
            let Ok(v) = serde_json::from_str::<serde_json::Value>(&text) else { continue };
            let stage_name = v["stage"].as_str().unwrap_or("main");
            let profile = v["profile"].as_str().unwrap_or("release");
            if profile != profile_name() {
                // debug-profile cases are replayed by the debug binary
                let st = std::process::Command::new(debug_binary()).args(["replay", f.to_str().unwrap()]).output();
                replayed += 1;
                if let Ok(o) = st {
                    if o.status.code() == Some(1) {
                        println!("{}", String::from_utf8_lossy(&o.stdout));
                        println!("VIOLATION property={id} replay={}", f.display());
                        return 1;
                    }
                }
                continue;
            }
            let Some(stage) = stages.iter().find(|s| s.prop.stage() == stage_name).or(stages.first()) else { continue };
            if isolated(stage.profile) {
                // a case of an isolated stage may kill the process that evaluates it
                let tape: Vec<u16> = serde_json::from_value(v["tape"].clone()).unwrap_or_default();
                replayed += 1;
                total.evaluations += 1;
                let bad = match eval_in_child(&isolated_bin(stage.profile), id, stage_name, &tape) {
                    Ok(l) if l.starts_with("EVAL fail ") && match_known(&known, id, &l[10..]).is_none() => Some(l[10..].to_string()),
                    Ok(_) => None,
                    Err(how) => Some(format!("crash:{}", crash_class(&how))),
                };
                if let Some(sig) = bad {
                    println!("--- regression case fails again ({sig}):\n{}", stage.prop.describe(&tape));
                    println!("VIOLATION property={id} replay={}", f.display());
                    return 1;
                }
                continue;
            }
            vcore::run::install_panic_hook();
            let rep = match v.get("case").filter(|c| !c.is_null()) {
                Some(c) => match serde_json::from_value::<vcore::minimize::StructCase>(c.clone()) {
                    Ok(sc) => stage.prop.eval_struct(&sc),
                    Err(_) => continue,
                },
                None => {
                    let tape: Vec<u16> = serde_json::from_value(v["tape"].clone()).unwrap_or_default();
                    stage.prop.eval(&tape)
                }
            };
            replayed += 1;
            total.evaluations += rep.evaluations;
            if let Some(fl) = rep.failure {
                if match_known(&known, id, &fl.signature).is_none() {
                    println!("--- regression case fails again ({}):\n{}", fl.signature, fl.detail);
                    println!("VIOLATION property={id} replay={}", f.display());
                    return 1;
                }
            }
        }
    }
    let mut rules = vec![];
    let mut per_stage = serde_json::Map::new();
    for stage in &stages {
        if stage.cases(tier) == 0 {
            continue;
        }
        let s = match stage.profile {
            // release stages run in a child process as well (unless VERIF_INPROC is set): an
            // abort of the tested code (a panic while unwinding, a stack overflow, a wild
            // pointer) is then attributed to a case and reported instead of killing the check.
            // C06 compares observations kept in this process, C17 (and the asan stages that
            // share its driver) talk to their own sanitizer-instrumented child.
            Profile::Release
                if !cfg!(debug_assertions)
                    && std::env::var_os("VERIF_INPROC").is_none()
                    && id != "C06"
                    && stage.prop.id() != "C17"
                    && stage.prop.stage() != "asan" =>
            {
                match run_stage_isolated(id, stage, tier, seed) {
                    Ok(s) => s,
                    Err(e) => {
                        println!("INCONCLUSIVE property={id} {e}");
                        return 2;
                    }
                }
            }
            Profile::Release if !cfg!(debug_assertions) => run_stage_here(stage, tier, seed),
            Profile::Debug if cfg!(debug_assertions) => run_stage_here(stage, tier, seed),
            Profile::Debug => match run_stage_child(id, stage, tier, seed) {
                Ok(s) => s,
                Err(e) => {
                    println!("INCONCLUSIVE property={id} {e}");
                    return 2;
                }
            },
            Profile::Release => {
                println!("INCONCLUSIVE property={id}: release stage requested from a debug binary");
                return 2;
            }
            Profile::Isolated | Profile::IsolatedDebug => match run_stage_isolated(id, stage, tier, seed) {
                Ok(s) => s,
                Err(e) => {
                    println!("INCONCLUSIVE property={id} {e}");
                    return 2;
                }
            },
        };
        per_stage.insert(
            stage.prop.stage().to_string(),
            serde_json::json!({
                "cases": s.cases, "evaluations": s.evaluations, "distinct_nontrivial": s.distinct_nontrivial(),
                "profile": format!("{:?}", stage.profile), "wall_s": s.wall_s, "labels": s.labels, "skipped": s.skipped,
            }),
        );
        rules.push(format!("[{}] {}", stage.prop.stage(), stage.prop.rule()));
        let stop = !s.violations.is_empty();
        total.merge(s);
        if stop {
            break;
        }
    }
    // C06: re-execute the same batch in freshly started processes and compare observations
    if id == "C06" && total.violations.is_empty() {
        let obs = vcore::props::more::C06_OBS.lock().unwrap().clone();
        let path = vcore::runner::verif_root().join("target").join(format!("c06-ref-{}-{seed}.json", std::process::id()));
        std::fs::write(&path, serde_json::to_string(&obs).unwrap()).expect("write C06 reference");
        let nproc = if tier == Tier::Quick { 2 } else { 3 };
        let me = std::env::current_exe().unwrap();
        let mut compared = 0u64;
        'procs: for k in 0..nproc {
            for stage in &stages {
                let out = std::process::Command::new(&me)
                    .args(["part", id, stage.prop.stage(), &stage.cases(tier).to_string(), &seed.to_string()])
                    .env("VERIF_C06_REF", &path)
                    .output()
                    .expect("spawn C06 child");
                let stdout = String::from_utf8_lossy(&out.stdout);
                let Some(line) = stdout.lines().find(|l| l.starts_with("STATS ")) else {
                    println!("INCONCLUSIVE property=C06 child {k} produced no stats: {stdout}");
                    return 2;
                };
                let s: Stats = serde_json::from_str(&line[6..]).expect("child stats");
                compared += s.labels.get("compared-cross-process").copied().unwrap_or(0);
                total.evaluations += s.evaluations;
                let stop = !s.violations.is_empty();
                total.violations.extend(s.violations);
                if stop {
                    break 'procs;
                }
            }
        }
        let _ = std::fs::remove_file(&path);
        per_stage.insert(
            "cross-process".to_string(),
            serde_json::json!({"fresh_processes": nproc, "case_comparisons": compared}),
        );
        if compared == 0 {
            println!("INCONCLUSIVE property=C06: no case was compared across processes");
            return 2;
        }
    }
    // thorough tier: coverage-guided campaign (libFuzzer) over the same tape decoder and
    // the same oracles; a fixed number of runs from a seeded start corpus.
    if tier == Tier::Thorough && total.violations.is_empty() && std::env::var_os("VERIF_NO_FUZZ").is_none() {
        if let Some((target, runs)) = fuzz_target_for(id) {
            match run_fuzz_campaign(id, target, runs, seed, &stages) {
                Ok((execs, vio)) => {
                    per_stage.insert(
                        format!("libfuzzer:{target}"),
                        serde_json::json!({"runs": execs, "seed": seed, "violations": vio.len()}),
                    );
                    total.evaluations += execs;
                    total.violations.extend(vio);
                }
                Err(e) => {
                    println!("INCONCLUSIVE property={id} fuzz campaign: {e}");
                    return 2;
                }
            }
        }
    }
    // thorough tier: the unsafe-code containers are also replayed under Miri
    if tier == Tier::Thorough && total.violations.is_empty() && std::env::var_os("VERIF_NO_MIRI").is_none() {
        if let Some((n, max_tape)) = match id {
            "C17" => Some((96, 260)),
            "C18" => Some((36, 1500)),
            "C19" => Some((64, 700)),
            _ => None,
        } {
            match run_miri_tier(id, n, max_tape, seed) {
                Ok((histories, nontrivial, vio)) => {
                    per_stage.insert(
                        "miri".to_string(),
                        serde_json::json!({"histories": histories, "nontrivial": nontrivial, "flags": "-Zmiri-disable-isolation (validation, Stacked Borrows and leak check on)"}),
                    );
                    total.evaluations += histories;
                    total.violations.extend(vio);
                }
                Err(e) => {
                    println!("INCONCLUSIVE property={id} miri tier: {e}");
                    return 2;
                }
            }
        }
    }
    rules.dedup_by(|a, b| a.split("] ").nth(1) == b.split("] ").nth(1));
    let meta = EvidenceMeta {
        property: id,
        tier,
        seed,
        level: level_of(id),
        rule: rules.join(" || "),
        assumptions: vec![
            "the table-driven provider is well-formed by construction (see DESIGN.md 2.1)".into(),
            "search-depth labels come from resolvo's tracing events and are used only to classify cases".into(),
            "absence of counterexamples among generated cases is not a proof".into(),
        ],
        extra: serde_json::json!({ "stages": per_stage, "regression_cases_replayed": replayed, "golden_cases": golden_run }),
    };
    write_evidence(&meta, &total, start.elapsed().as_secs_f64());
    for (k, n) in &total.known {
        if let Some(kf) = known.iter().find(|f| &f.id == k) {
            println!("KNOWN-FINDING: property={id} {} [{}] ({} cases suppressed)", kf.description, kf.id, n);
        }
    }
    println!(
        "property={id} tier={} seed={seed} cases={} evaluations={} distinct_nontrivial={} wall={:.1}s",
        tier.name(),
        total.cases,
        total.evaluations,
        total.distinct_nontrivial(),
        start.elapsed().as_secs_f64()
    );
    if total.violations.is_empty() {
        0
    } else {
        for v in &total.violations {
            let path = write_replay(v);
            println!("--- violation detail ({} / {}):\n{}\n{}", v.stage, v.signature, v.detail, v.description);
            println!("VIOLATION property={id} replay={}", path.display());
        }
        1
    }
}

/// Generates `n` tapes, splits them over up to 12 parallel `cargo +nightly miri run`
/// processes (crate harness/miri) and reports any Undefined Behaviour / model mismatch.
fn run_miri_tier(id: &str, n: usize, max_tape: usize, seed: u64) -> Result<(u64, u64, Vec<ViolationRecord>), String> {
    use proptest::strategy::{Strategy, ValueTree};
    let root = vcore::runner::verif_root();
    let work = root.join("target-miri").join(format!("run-{id}-{}", std::process::id()));
    let _ = std::fs::remove_dir_all(&work);
    std::fs::create_dir_all(&work).map_err(|e| e.to_string())?;
    let mut b = [11u8; 32];
    b[..8].copy_from_slice(&seed.to_le_bytes());
    let mut runner = proptest::test_runner::TestRunner::new_with_rng(
        proptest::test_runner::Config::default(),
        proptest::test_runner::TestRng::from_seed(proptest::test_runner::RngAlgorithm::ChaCha, &b),
    );
    let strat = proptest::collection::vec(proptest::num::u16::ANY, max_tape / 3..=max_tape);
    let parts = 12usize.min(n.max(1));
    let mut files: Vec<(std::path::PathBuf, Vec<Vec<u16>>)> = (0..parts).map(|k| (work.join(format!("part-{k}.txt")), vec![])).collect();
    for i in 0..n {
        let t = strat.new_tree(&mut runner).map_err(|e| e.to_string())?.current();
        files[i % parts].1.push(t);
    }
    for (path, tapes) in &files {
        let text: String = tapes
            .iter()
            .map(|t| t.iter().map(|v| v.to_string()).collect::<Vec<_>>().join(" "))
            .collect::<Vec<_>>()
            .join("\n");
        std::fs::write(path, text).map_err(|e| e.to_string())?;
    }
    let crate_dir = root.join("harness").join("miri");
    // build once (also builds the Miri sysroot on first use), then run the parts in parallel
    let build = std::process::Command::new("cargo")
        .current_dir(&crate_dir)
        .args(["+nightly", "miri", "run", "-q", "--", "/dev/null", id])
        .env("RUSTFLAGS", "--cap-lints warn")
        .env("MIRIFLAGS", "-Zmiri-disable-isolation")
        .output()
        .map_err(|e| format!("cannot start cargo miri: {e}"))?;
    if !String::from_utf8_lossy(&build.stdout).contains("MIRI-OK") {
        return Err(format!(
            "cargo miri does not run: {}",
            String::from_utf8_lossy(&build.stderr).lines().rev().take(8).collect::<Vec<_>>().join(" | ")
        ));
    }
    let children: Vec<_> = files
        .iter()
        .map(|(path, _)| {
            std::process::Command::new("cargo")
                .current_dir(&crate_dir)
                .args(["+nightly", "miri", "run", "-q", "--"])
                .arg(path)
                .arg(id)
                .env("RUSTFLAGS", "--cap-lints warn")
                .env("MIRIFLAGS", "-Zmiri-disable-isolation")
                .stdout(std::process::Stdio::piped())
                .stderr(std::process::Stdio::piped())
                .spawn()
        })
        .collect();
    let mut histories = 0u64;
    let mut nontrivial = 0u64;
    let mut vio = vec![];
    for (child, (path, tapes)) in children.into_iter().zip(files.iter()) {
        let out = child.map_err(|e| e.to_string())?.wait_with_output().map_err(|e| e.to_string())?;
        let stdout = String::from_utf8_lossy(&out.stdout).to_string();
        let stderr = String::from_utf8_lossy(&out.stderr).to_string();
        if let Some(l) = stdout.lines().find(|l| l.starts_with("MIRI-OK")) {
            for tok in l.split_whitespace() {
                if let Some(v) = tok.strip_prefix("histories=") {
                    histories += v.parse::<u64>().unwrap_or(0);
                }
                if let Some(v) = tok.strip_prefix("nontrivial=") {
                    nontrivial += v.parse::<u64>().unwrap_or(0);
                }
            }
            continue;
        }
        let ub = stderr.lines().find(|l| {
            l.starts_with("error: Undefined Behavior") || l.starts_with("error: memory leaked") || l.starts_with("error: deadlock") || l.starts_with("error: the evaluated program")
        });
        if ub.is_none() && stdout.lines().all(|l| !l.starts_with("MIRI-VIOLATION")) {
            // e.g. "unsupported operation": an infrastructure problem, never a verdict
            return Err(format!(
                "miri part {} stopped without a verdict: {}",
                path.display(),
                stderr.lines().filter(|l| l.starts_with("error")).take(3).collect::<Vec<_>>().join(" | ")
            ));
        }
        let model = stdout.lines().find(|l| l.starts_with("MIRI-VIOLATION"));
        let (sig, detail) = match (model, ub) {
            (Some(m), _) => ("miri-run:model-mismatch".to_string(), m.to_string()),
            (None, Some(u)) => (
                format!("miri:{}", u.chars().take(110).collect::<String>()),
                stderr.lines().skip_while(|l| !l.starts_with("error")).take(30).collect::<Vec<_>>().join("\n"),
            ),
            (None, None) => return Err(format!("miri part {} ended without a verdict: {}", path.display(), stderr.lines().rev().take(6).collect::<Vec<_>>().join(" | "))),
        };
        // narrow the failing part down to one history
        let mut culprit: Option<Vec<u16>> = None;
        for (k, t) in tapes.iter().enumerate() {
            let single = work.join(format!("single-{k}.txt"));
            let _ = std::fs::write(&single, t.iter().map(|v| v.to_string()).collect::<Vec<_>>().join(" "));
            let o = std::process::Command::new("cargo")
                .current_dir(&crate_dir)
                .args(["+nightly", "miri", "run", "-q", "--"])
                .arg(&single)
                .arg(id)
                .env("RUSTFLAGS", "--cap-lints warn")
                .env("MIRIFLAGS", "-Zmiri-disable-isolation")
                .output();
            if let Ok(o) = o {
                if !String::from_utf8_lossy(&o.stdout).contains("MIRI-OK") {
                    culprit = Some(t.clone());
                    break;
                }
            }
        }
        let tapes: Vec<Vec<u16>> = match culprit {
            Some(t) => vec![t],
            None => tapes.clone(),
        };
        vio.push(ViolationRecord {
            property: id.to_string(),
            stage: "miri".to_string(),
            signature: sig,
            detail: format!("{detail}\n(one of the {} histories in this part; replay: cd harness/miri && RUSTFLAGS='--cap-lints warn' MIRIFLAGS=-Zmiri-disable-isolation cargo +nightly miri run -- <file with the tape below on one line> {id})", tapes.len()),
            description: format!("tapes of the failing part: {:?}", tapes.iter().map(|t| t.len()).collect::<Vec<_>>()),
            tape: tapes.first().cloned().unwrap_or_default(),
            case: None,
            profile: profile_name().to_string(),
        });
    }
    let _ = std::fs::remove_dir_all(&work);
    Ok((histories, nontrivial, vio))
}

fn fuzz_target_for(id: &str) -> Option<(&'static str, u64)> {
    match id {
        "C01" | "C02" | "C03" | "C04" | "C05" | "C07" | "C08" | "C09" | "C14" => Some(("solve_oracles", 60_000)),
        "C10" | "C11" | "C13" => Some(("async_sched", 40_000)),
        // one C12 input is up to 48 cancelled solves, some over unions of a thousand version sets
        // (instrumented build): 40 000 runs took 35 minutes
        "C12" => Some(("async_sched", 10_000)),
        "C18" | "C19" => Some(("containers", 60_000)),
        "C16" | "C20" => Some(("snapshot_cache", 60_000)),
        _ => None,
    }
}

/// Runs the libFuzzer binary for `runs` executions; any artifact is re-evaluated with the
/// stages of property `id` (shrunk with the tape passes) and returned as a violation.
fn run_fuzz_campaign(
    id: &str,
    target: &str,
    runs: u64,
    seed: u64,
    stages: &[Stage],
) -> Result<(u64, Vec<ViolationRecord>), String> {
    use proptest::strategy::{Strategy, ValueTree};
    let bin = vcore::runner::verif_root().join("target-fuzz/x86_64-unknown-linux-gnu/release").join(target);
    if !bin.exists() {
        return Err(format!("{} is not built (./check builds it in the thorough tier)", bin.display()));
    }
    let work = vcore::runner::verif_root().join("target-fuzz").join(format!("campaign-{id}-{}", std::process::id()));
    let corpus = work.join("corpus");
    let artifacts = work.join("artifacts");
    let _ = std::fs::remove_dir_all(&work);
    std::fs::create_dir_all(&corpus).map_err(|e| e.to_string())?;
    std::fs::create_dir_all(&artifacts).map_err(|e| e.to_string())?;
    // start corpus: the empty input plus 64 generated tapes (valid, full-length cases)
    std::fs::write(corpus.join("empty"), b"").map_err(|e| e.to_string())?;
    let mut runner = proptest::test_runner::TestRunner::new_with_rng(
        proptest::test_runner::Config::default(),
        proptest::test_runner::TestRng::from_seed(proptest::test_runner::RngAlgorithm::ChaCha, &{
            let mut b = [7u8; 32];
            b[..8].copy_from_slice(&seed.to_le_bytes());
            b
        }),
    );
    let strat = proptest::collection::vec(proptest::num::u16::ANY, 300..=1500);
    for i in 0..64 {
        let tape = strat.new_tree(&mut runner).map_err(|e| e.to_string())?.current();
        std::fs::write(corpus.join(format!("seed{i}")), vcore::tape::tape_to_bytes(&tape)).map_err(|e| e.to_string())?;
    }
    let out = std::process::Command::new(&bin)
        .arg(format!("-runs={runs}"))
        .arg(format!("-seed={}", if seed == 0 { 1 } else { seed }))
        .arg("-len_control=0")
        .arg("-max_len=3200")
        .arg("-timeout=600")
        .arg("-rss_limit_mb=4096")
        .arg(format!("-artifact_prefix={}/", artifacts.display()))
        .arg(&corpus)
        .env("VERIF_ROOT", vcore::runner::verif_root())
        .env("VERIF_FUZZ_ONLY", id)
        .output()
        .map_err(|e| e.to_string())?;
    let stderr = String::from_utf8_lossy(&out.stderr);
    let execs = stderr
        .lines()
        .rev()
        .find_map(|l| l.strip_prefix("Done ").and_then(|r| r.split_whitespace().next()).and_then(|n| n.parse::<u64>().ok()))
        .unwrap_or(0);
    let mut vio = vec![];
    if let Ok(rd) = std::fs::read_dir(&artifacts) {
        for e in rd.filter_map(|e| e.ok()) {
            let bytes = std::fs::read(e.path()).unwrap_or_default();
            let tape = vcore::tape::bytes_to_tape(&bytes);
            for stage in stages {
                if !runs_here(stage.profile) {
                    continue;
                }
                if let Some(f) = stage.prop.eval(&tape).failure {
                    if match_known(&load_known(), id, &f.signature).is_some() {
                        continue;
                    }
                    let sig = f.signature.clone();
                    let fails = |t: &[u16]| stage.prop.eval(t).failure.map(|x| x.signature == sig).unwrap_or(false);
                    let min = tape_passes(tape.clone(), &fails, stage.prop.shrink_budget());
                    let case = stage.prop.decode_struct(&min);
                    vio.push(ViolationRecord {
                        property: id.to_string(),
                        stage: stage.prop.stage().to_string(),
                        signature: f.signature,
                        detail: format!("found by libFuzzer target {target}: {}", f.detail),
                        description: stage.prop.describe(&min),
                        tape: min,
                        case,
                        profile: profile_name().to_string(),
                    });
                    break;
                }
            }
        }
    }
    // an input that merely was slow (libFuzzer's -timeout, exit status 70; the targets run with
    // AddressSanitizer and debug assertions, possibly on a loaded machine) and that passes
    // through the plain path above is not a verdict of any kind
    let only_slow = std::fs::read_dir(&artifacts)
        .map(|rd| rd.filter_map(|e| e.ok()).all(|e| {
            let n = e.file_name().to_string_lossy().to_string();
            n.starts_with("timeout-") || n.starts_with("slow-unit-")
        }))
        .unwrap_or(true);
    if !out.status.success() && vio.is_empty() && !(out.status.code() == Some(70) && only_slow) {
        // the campaign stopped on something that does not reproduce as a violation of THIS
        // property through the plain evaluation path (e.g. it belongs to another property
        // served by the same target, or only shows under ASan/debug assertions): say so.
        let tail: String = stderr.lines().rev().take(12).collect::<Vec<_>>().into_iter().rev().collect::<Vec<_>>().join("\n");
        let other = stderr.lines().find(|l| l.starts_with("FUZZ-VIOLATION")).unwrap_or("");
        if other.contains(&format!("property={id} ")) || other.is_empty() {
            let keep = vcore::runner::verif_root().join("replays").join(format!("{id}-fuzz-artifacts-{}", std::process::id()));
            let _ = std::fs::create_dir_all(keep.parent().unwrap());
            let _ = std::fs::rename(&artifacts, &keep);
            let _ = std::fs::remove_dir_all(&work);
            return Err(format!("fuzz target {target} stopped ({}) but the artifact does not reproduce through the plain path; artifacts kept in {}\n{tail}", out.status, keep.display()));
        }
    }
    let _ = std::fs::remove_dir_all(&work);
    Ok((execs, vio))
}

fn cmd_part(id: &str, stage_name: &str, cases: u64, seed: u64) -> i32 {
    let stages = stages(id);
    let Some(stage) = stages.iter().find(|s| s.prop.stage() == stage_name) else {
        eprintln!("unknown stage {stage_name}");
        return 2;
    };
    let opts = RunOpts {
        seed,
        cases,
        workers: workers(),
        hang_secs: 60,
    };
    let s = run_property(stage.prop.as_ref(), &opts, &[]);
    println!("STATS {}", serde_json::to_string(&s).unwrap());
    0
}

fn cmd_replay(path: &str) -> i32 {
    let text = std::fs::read_to_string(path).expect("read replay");
    let v: serde_json::Value = serde_json::from_str(&text).expect("parse replay");
    let id = v["property"].as_str().expect("property");
    let stage_name = v["stage"].as_str().unwrap_or("main");
    let profile = v["profile"].as_str().unwrap_or("release");
    if profile != profile_name() {
        // re-dispatch to the binary of the recorded profile
        let me = std::env::current_exe().unwrap();
        let target = me.parent().and_then(|p| p.parent()).unwrap();
        let other = target.join(profile).join("vrun");
        let st = std::process::Command::new(other).args(["replay", path]).status().expect("spawn");
        return st.code().unwrap_or(2);
    }
    let tape: Vec<u16> = serde_json::from_value(v["tape"].clone()).expect("tape");
    if stage_name == "miri" {
        // replay one history under Miri
        let root = vcore::runner::verif_root();
        let file = root.join("target-miri").join(format!("replay-{}.txt", std::process::id()));
        let _ = std::fs::create_dir_all(file.parent().unwrap());
        std::fs::write(&file, tape.iter().map(|x| x.to_string()).collect::<Vec<_>>().join(" ")).expect("write tape");
        let out = std::process::Command::new("cargo")
            .current_dir(root.join("harness").join("miri"))
            .args(["+nightly", "miri", "run", "-q", "--"])
            .arg(&file)
            .arg(id)
            .env("RUSTFLAGS", "--cap-lints warn")
            .env("MIRIFLAGS", "-Zmiri-disable-isolation")
            .output()
            .expect("cargo miri");
        let _ = std::fs::remove_file(&file);
        let stdout = String::from_utf8_lossy(&out.stdout);
        if stdout.contains("MIRI-OK") {
            println!("replay passes under Miri: {}", stdout.trim());
            return 0;
        }
        println!("{}\n{}", stdout, String::from_utf8_lossy(&out.stderr).lines().skip_while(|l| !l.starts_with("error")).take(30).collect::<Vec<_>>().join("\n"));
        println!("VIOLATION property={id} replay={path}");
        return 1;
    }
    let stages = stages(id);
    let stage = stages
        .iter()
        .find(|s| s.prop.stage() == stage_name)
        .or(stages.first())
        .expect("stage");
    if isolated(stage.profile) {
        println!("{}", stage.prop.describe(&tape));
        return match eval_in_child(&isolated_bin(stage.profile), id, stage_name, &tape) {
            Ok(l) if l.starts_with("EVAL fail ") => {
                println!("--- {}", &l[10..]);
                println!("VIOLATION property={id} replay={path}");
                1
            }
            Ok(_) => {
                println!("replay passes");
                0
            }
            Err(how) => {
                println!("--- crash:{how}: the process evaluating this case died");
                println!("VIOLATION property={id} replay={path}");
                1
            }
        };
    }
    vcore::run::install_panic_hook();
    let rep = match v.get("case").filter(|c| !c.is_null()) {
        Some(c) => {
            let sc: vcore::minimize::StructCase = serde_json::from_value(c.clone()).expect("case");
            println!("{}", stage.prop.describe_struct(&sc));
            stage.prop.eval_struct(&sc)
        }
        None => {
            println!("{}", stage.prop.describe(&tape));
            stage.prop.eval(&tape)
        }
    };
    match rep.failure {
        Some(f) => {
            println!("--- {}\n{}", f.signature, f.detail);
            println!("VIOLATION property={id} replay={path}");
            1
        }
        None => {
            println!("replay passes: labels {:?}", rep.labels);
            0
        }
    }
}

fn cmd_stats(id: &str, cases: u64) -> i32 {
    for stage in stages(id) {
        // the constructed child-process stages cost seconds per case: only in small stats runs
        if !runs_here(stage.profile) && !(stage.profile == Profile::Isolated && !cfg!(debug_assertions) && cases <= 200) {
            continue;
        }
        let opts = RunOpts {
            seed: seed(),
            cases,
            workers: workers(),
            hang_secs: 60,
        };
        let s = run_property(stage.prop.as_ref(), &opts, &[]);
        println!(
            "== {id}/{} cases={} evals={} distinct_nontrivial={} wall={:.2}s",
            stage.prop.stage(),
            s.cases,
            s.evaluations,
            s.distinct_nontrivial(),
            s.wall_s
        );
        println!("labels: {:?}\nskipped: {:?}\nknown: {:?}", s.labels, s.skipped, s.known);
        for v in &s.violations {
            println!("VIOLATION {} {}\n{}\n{}", v.signature, v.tape.len(), v.detail, v.description);
        }
        if let Some(x) = s.samples.first() {
            println!("sample:\n{x}");
        }
    }
    0
}

fn cmd_show(id: &str, n: usize) -> i32 {
    use proptest::strategy::{Strategy, ValueTree};
    vcore::run::install_panic_hook();
    let stages = stages(id);
    let stage = &stages[0];
    let mut runner = proptest::test_runner::TestRunner::deterministic();
    let strat = proptest::collection::vec(proptest::num::u16::ANY, stage.prop.max_tape() / 3..=stage.prop.max_tape());
    for _ in 0..n {
        let tape = strat.new_tree(&mut runner).unwrap().current();
        let rep = stage.prop.eval(&tape);
        println!("{}labels={:?} nontrivial={} fail={:?}\n", stage.prop.describe(&tape), rep.labels, rep.nontrivial, rep.failure.map(|f| f.signature));
    }
    0
}

fn main() {
    let args: Vec<String> = std::env::args().collect();
    let code = match args.get(1).map(|s| s.as_str()) {
        Some("check") => {
            let tier = match args.get(3).map(|s| s.as_str()) {
                Some("thorough") => Tier::Thorough,
                _ => Tier::Quick,
            };
            cmd_check(&args[2], tier)
        }
        Some("part") => cmd_part(&args[2], &args[3], args[4].parse().unwrap(), args[5].parse().unwrap()),
        Some("replay") => cmd_replay(&args[2]),
        Some("golden") => {
            // vrun golden [export-dir]: self-check against the outcomes pinned by tests/solver.rs,
            // optionally export the cases as structured regression files
            vcore::run::install_panic_hook();
            let bad = vcore::golden::self_check();
            for b in &bad {
                println!("GOLDEN-MISMATCH {b}");
            }
            if let Some(dir) = args.get(2) {
                for g in vcore::golden::all() {
                    for id in ["C01", "C02", "C03", "C04", "C05", "C06", "C10"] {
                        let stage = stages(id).into_iter().next().unwrap();
                        let rec = serde_json::json!({
                            "property": id, "stage": stage.prop.stage(), "signature": "golden", "detail": "golden case translated from tests/solver.rs",
                            "tape": [], "case": g.case, "description": g.case.u.describe(&g.case.problem), "profile": "release",
                        });
                        std::fs::write(format!("{dir}/{id}-golden-{}.json", g.name), serde_json::to_string(&rec).unwrap()).unwrap();
                    }
                }
            }
            println!("golden cases: {} checked, {} mismatches", vcore::golden::all().len(), bad.len());
            if bad.is_empty() { 0 } else { 1 }
        }
        Some("tapes") => {
            // vrun tapes <n> <max_len> <seed>: n generated tapes, one per line (Miri tier input)
            use proptest::strategy::{Strategy, ValueTree};
            let n: usize = args[2].parse().unwrap();
            let max: usize = args[3].parse().unwrap();
            let seed: u64 = args[4].parse().unwrap();
            let mut b = [9u8; 32];
            b[..8].copy_from_slice(&seed.to_le_bytes());
            let mut runner = proptest::test_runner::TestRunner::new_with_rng(
                proptest::test_runner::Config::default(),
                proptest::test_runner::TestRng::from_seed(proptest::test_runner::RngAlgorithm::ChaCha, &b),
            );
            let strat = proptest::collection::vec(proptest::num::u16::ANY, max / 3..=max);
            for _ in 0..n {
                let t = strat.new_tree(&mut runner).unwrap().current();
                println!("{}", t.iter().map(|v| v.to_string()).collect::<Vec<_>>().join(" "));
            }
            0
        }
        Some("inventory") => {
            // vrun inventory: the stage table of DESIGN.md section 2a
            println!("| check | stage | profile | quick cases | thorough cases |\n|---|---|---|---|---|");
            let fmt = |n: u64| {
                let s = n.to_string();
                let mut o = String::new();
                for (i, c) in s.chars().enumerate() {
                    if i > 0 && (s.len() - i) % 3 == 0 {
                        o.push(',');
                    }
                    o.push(c);
                }
                o
            };
            for n in 1..=20 {
                let id = format!("C{n:02}");
                for st in stages(&id) {
                    println!("| {id} | {} | {:?} | {} | {} |", st.prop.stage(), st.profile, fmt(st.quick_cases), fmt(st.thorough_cases));
                }
            }
            0
        }
        Some("evalone") => cmd_evalone(&args[2], &args[3], &args[4]),
        Some("show") => cmd_show(&args[2], args.get(3).and_then(|s| s.parse().ok()).unwrap_or(3)),
        Some("stats") => cmd_stats(&args[2], args.get(3).and_then(|s| s.parse().ok()).unwrap_or(2000)),
        _ => {
            eprintln!("usage: vrun check <ID> <quick|thorough> | part .. | replay <file> | stats <ID> [cases]");
            2
        }
    };
    std::process::exit(code);
}

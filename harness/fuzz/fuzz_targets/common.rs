// Shared by all fuzz targets: bytes -> tape -> the same Property::eval the proptest checks
// use. A failure whose signature is not a listed known finding aborts (libFuzzer saves the
// input); set VERIF_FUZZ_STRICT=1 to abort on known findings too (replay mode).
use vcore::runner::{load_known, match_known, KnownFinding, Property};

pub fn known() -> &'static Vec<KnownFinding> {
    static K: std::sync::OnceLock<Vec<KnownFinding>> = std::sync::OnceLock::new();
    K.get_or_init(load_known)
}

pub fn run_props(props: &[Box<dyn Property>], data: &[u8]) {
    vcore::run::install_panic_hook();
    let tape = vcore::tape::bytes_to_tape(data);
    let strict = std::env::var_os("VERIF_FUZZ_STRICT").is_some();
    for p in props {
        let rep = p.eval(&tape);
        if let Some(f) = rep.failure {
            if !strict && match_known(known(), p.id(), &f.signature).is_some() {
                continue;
            }
            eprintln!("FUZZ-VIOLATION property={} stage={} signature={}\n{}\n{}", p.id(), p.stage(), f.signature, f.detail, p.describe(&tape));
            std::process::abort();
        }
    }
}

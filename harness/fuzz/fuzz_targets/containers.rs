#![no_main]
mod common;
use libfuzzer_sys::fuzz_target;
use vcore::props::registry::stages;
use vcore::runner::Property;

fn build() -> Vec<Box<dyn Property>> {
    {
        let mut v: Vec<Box<dyn Property>> = vec![];
        for id in ["C18", "C19"] {
            for s in stages(id) {
                if vcore::props::registry::fuzzable(&s) {
                    v.push(s.prop);
                }
            }
        }
        v
    }
}

thread_local! {
    static PROPS: Vec<Box<dyn Property>> = build();
}

fuzz_target!(|data: &[u8]| {
    PROPS.with(|p| common::run_props(p, data));
});

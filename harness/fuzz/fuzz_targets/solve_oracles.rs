#![no_main]
mod common;
use libfuzzer_sys::fuzz_target;
use vcore::props::registry::stages;
use vcore::runner::Property;

fn build() -> Vec<Box<dyn Property>> {
    {
        let mut v: Vec<Box<dyn Property>> = vec![];
        for id in ["C01", "C02", "C03", "C04", "C05", "C07", "C08", "C09", "C14"] {
            // a campaign run on behalf of one property evaluates that property's stages only
            if std::env::var("VERIF_FUZZ_ONLY").map_or(false, |o| o != id) {
                continue;
            }
            for s in stages(id) {
                // one stage per distinct generator; debug-profile stages are the same code here
                if vcore::props::registry::fuzzable(&s) {
                    v.push(s.prop);
                }
            }
        }
        v
    }
}

thread_local! {
    static PROPS: Vec<Box<dyn Property>> = build();
}

fuzz_target!(|data: &[u8]| {
    PROPS.with(|p| common::run_props(p, data));
});

#![no_main]
mod common;
use libfuzzer_sys::fuzz_target;
use vcore::props::registry::stages;
use vcore::runner::Property;

fn build() -> Vec<Box<dyn Property>> {
    {
        let mut v: Vec<Box<dyn Property>> = vec![];
        for id in ["C10", "C11", "C12", "C13"] {
            // a campaign run on behalf of one property evaluates that property's stages only
            if std::env::var("VERIF_FUZZ_ONLY").map_or(false, |o| o != id) {
                continue;
            }
            for s in stages(id) {
                if vcore::props::registry::fuzzable(&s) {
                    v.push(s.prop);
                }
            }
        }
        v
    }
}

thread_local! {
    static PROPS: Vec<Box<dyn Property>> = build();
}

fuzz_target!(|data: &[u8]| {
    PROPS.with(|p| common::run_props(p, data));
});
